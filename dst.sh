#!/bin/sh
# Entry point of every check: rebuilds the simulator (incrementally) against /repo's current
# working tree with the hooks enabled, then runs it. Exit 2 = harness/build error.
HERE="$(cd "$(dirname "$0")" && pwd)"
export VERIF_DIR="$HERE"
export CARGO_NET_OFFLINE=true
cd "$HERE/dst" || exit 2
if ! cargo build --release --offline -q 2>"$HERE/dst/build.log"; then
    cat "$HERE/dst/build.log" >&2
    echo "HARNESS-ERROR: simulator does not build against /repo" >&2
    exit 2
fi
cd "$HERE" || exit 2
exec "$HERE/dst/target/release/dst" "$@"
