//! Panic capture: a process-wide hook that records the location and message of every panic on the
//! current thread while capture is active (and stays silent), so a router death is reported with
//! its source location in /repo.
use std::cell::RefCell;
use std::sync::Once;

thread_local! {
    static CAPTURE: RefCell<Option<Vec<(String, String)>>> = RefCell::new(None);
    /// every panic seen on this thread since the last `take_all`, swallowed or not
    static ALL: RefCell<Vec<(String, String)>> = RefCell::new(Vec::new());
    static QUIET: RefCell<bool> = RefCell::new(false);
}

static INSTALL: Once = Once::new();

pub fn install() {
    INSTALL.call_once(|| {
        let default = std::panic::take_hook();
        std::panic::set_hook(Box::new(move |info| {
            let loc = info
                .location()
                .map(|l| format!("{}:{}", shorten(l.file()), l.line()))
                .unwrap_or_else(|| "unknown".into());
            let msg = if let Some(s) = info.payload().downcast_ref::<&str>() {
                s.to_string()
            } else if let Some(s) = info.payload().downcast_ref::<String>() {
                s.clone()
            } else {
                "non-string panic payload".to_string()
            };
            let _ = ALL.try_with(|a| a.borrow_mut().push((loc.clone(), msg.clone())));
            let captured = CAPTURE
                .try_with(|c| {
                    if let Some(v) = c.borrow_mut().as_mut() {
                        v.push((loc.clone(), msg.clone()));
                        true
                    } else {
                        false
                    }
                })
                .unwrap_or(false);
            let quiet = QUIET.try_with(|q| *q.borrow()).unwrap_or(false);
            if !captured && !quiet {
                default(info);
            }
        }));
    });
}

/// Strip the machine-specific prefix so signatures are stable: keep the path from the crate dir on.
pub fn shorten(file: &str) -> String {
    if let Some(i) = file.find("/repo/") {
        return file[i + 6..].to_string();
    }
    if let Some(i) = file.find("/registry/src/") {
        let rest = &file[i + 14..];
        if let Some(j) = rest.find('/') {
            return format!("dep:{}", &rest[j + 1..]);
        }
    }
    if file.starts_with("/rustc/") {
        if let Some(j) = file[7..].find('/') {
            return format!("rust:{}", &file[7 + j + 1..]);
        }
    }
    if let Some(i) = file.find("/verif/") {
        return format!("verif:{}", &file[i + 7..]);
    }
    file.to_string()
}

pub fn begin_capture() {
    CAPTURE.with(|c| *c.borrow_mut() = Some(Vec::new()));
}

/// Ends capture; returns the first panic recorded (the original one, not one raised while unwinding).
pub fn end_capture() -> Option<(String, String)> {
    CAPTURE.with(|c| c.borrow_mut().take()).and_then(|v| v.into_iter().next())
}

pub fn set_quiet(q: bool) {
    QUIET.with(|x| *x.borrow_mut() = q);
}

pub fn take_all() -> Vec<(String, String)> {
    ALL.with(|a| std::mem::take(&mut *a.borrow_mut()))
}
