//! Types shared by all engines: scripts, outcomes, the family interface.
use crate::rng::Rng;
use serde::{Deserialize, Serialize};
use serde_json::Value;
use std::collections::BTreeMap;

#[derive(Clone, Copy, Debug, PartialEq, Eq, Serialize, Deserialize)]
#[serde(rename_all = "lowercase")]
pub enum Tier {
    Quick,
    Thorough,
}

impl Tier {
    pub fn as_str(&self) -> &'static str {
        match self {
            Tier::Quick => "quick",
            Tier::Thorough => "thorough",
        }
    }
}

/// One exactly repeatable execution: everything the executor needs.
#[derive(Clone, Debug, Serialize, Deserialize)]
pub struct Script {
    pub property: String,
    pub family: String,
    /// seed of the entropy stream served to the code under test during this run
    pub entropy_seed: u64,
    /// the generator seed this script came from (informational; 0 for hand-written scripts)
    #[serde(default)]
    pub gen_seed: u64,
    #[serde(default)]
    pub gen_index: u64,
    pub body: Value,
}

#[derive(Clone, Debug, Serialize, Deserialize, PartialEq, Eq)]
pub struct Violation {
    pub property: String,
    /// which oracle clause failed
    pub tag: String,
    /// discriminating fact (panic location, classifier result); (property, tag, signature) is the violation class
    pub signature: String,
    pub detail: String,
}

impl Violation {
    pub fn class(&self) -> String {
        format!("{}|{}|{}", self.property, self.tag, self.signature)
    }
}

#[derive(Clone, Debug, Default, Serialize, Deserialize)]
pub struct Outcome {
    pub violations: Vec<Violation>,
    pub nontrivial: bool,
    pub inconclusive: bool,
    /// hash of the abstract event trace (interleaving measure)
    pub trace_hash: u64,
    /// hash of the complete event log (determinism check)
    pub full_hash: u64,
    pub probes: BTreeMap<String, u64>,
    pub faults: BTreeMap<String, u64>,
    pub virtual_ms: u64,
    pub steps: u64,
    /// optional human-readable event log (only filled when asked for)
    #[serde(default, skip_serializing_if = "Vec::is_empty")]
    pub log: Vec<String>,
}

impl Outcome {
    pub fn probe(&mut self, name: &str) {
        *self.probes.entry(name.to_string()).or_insert(0) += 1;
    }
    pub fn probe_n(&mut self, name: &str, n: u64) {
        if n > 0 {
            *self.probes.entry(name.to_string()).or_insert(0) += n;
        }
    }
    pub fn fault(&mut self, name: &str) {
        *self.faults.entry(name.to_string()).or_insert(0) += 1;
    }
    pub fn fault_n(&mut self, name: &str, n: u64) {
        if n > 0 {
            *self.faults.entry(name.to_string()).or_insert(0) += n;
        }
    }
    pub fn violate(&mut self, property: &str, tag: &str, signature: &str, detail: String) {
        let v = Violation {
            property: property.to_string(),
            tag: tag.to_string(),
            signature: signature.to_string(),
            detail,
        };
        if !self.violations.iter().any(|x| x.class() == v.class()) {
            self.violations.push(v);
        }
    }
}

pub struct ExecOpts {
    pub want_log: bool,
}

/// A scenario family: generator + executor + shrinker for one kind of script body.
pub trait Family: Sync + Send {
    fn name(&self) -> &'static str;
    fn engine(&self) -> &'static str;
    /// Generates the body of run `index` (the rng is already seeded for this run).
    fn generate(&self, property: &str, tier: Tier, index: u64, total: u64, rng: &mut Rng) -> Value;
    /// Executes a script body. Called on a fresh OS thread with the entropy stream reseeded.
    fn execute(&self, property: &str, body: &Value, opts: &ExecOpts) -> Outcome;
    /// Candidate simplifications of `body`, most aggressive first.
    fn shrink(&self, body: &Value) -> Vec<Value>;
    /// Per-run wall-clock watchdog in milliseconds.
    fn watchdog_ms(&self) -> u64 {
        20_000
    }
    /// Stack of the thread a run executes on. Families whose victim is a consuming client use
    /// what a tokio worker thread gets (2 MiB), so that unbounded recursion driven by peer input
    /// overflows here as it would there.
    fn stack_bytes(&self) -> usize {
        16 << 20
    }
    /// True if the family enumerates a finite fault-point space completely at this tier.
    fn exhaustive_note(&self, _property: &str, _tier: Tier) -> Option<String> {
        None
    }
}

/// How many runs of which family make up a check at a tier.
pub struct PlanItem {
    pub family: &'static dyn Family,
    pub quick: u64,
    pub thorough: u64,
}

pub struct CheckPlan {
    pub property: &'static str,
    pub level: &'static str,
    pub rule: &'static str,
    pub assumptions: Vec<&'static str>,
    pub real: Vec<&'static str>,
    pub stubbed: Vec<&'static str>,
    pub items: Vec<PlanItem>,
}
