//! Worker process: executes scripts, each on a fresh OS thread with the entropy stream reseeded.
//! Commands arrive as JSON lines on stdin, results leave as JSON lines on stdout.

use crate::core::*;
use crate::registry;
use crate::rng::{run_seed, Rng};
use serde::{Deserialize, Serialize};
use serde_json::{json, Value};
use std::collections::{BTreeMap, HashSet};
use std::io::{BufRead, Write};
use std::os::unix::fs::FileExt;
use std::sync::atomic::{AtomicU64, Ordering};
use std::sync::Arc;
use std::time::{Duration, Instant};

extern "C" {
    pub fn detrand_reseed(seed: u64);
    pub fn detrand_call_count() -> u64;
    pub fn detrand_byte_count() -> u64;
}

#[derive(Clone, Debug, Serialize, Deserialize)]
pub struct RangeCmd {
    pub property: String,
    pub family: String,
    pub tier: Tier,
    pub seed: u64,
    pub start: u64,
    pub step: u64,
    pub end: u64,
    pub total: u64,
    pub progress_path: String,
    pub hashes_path: String,
    pub item: u64,
    pub max_violations: usize,
    pub dupcheck_every: u64,
}

#[derive(Clone, Debug, Serialize, Deserialize)]
#[serde(tag = "cmd", rename_all = "snake_case")]
pub enum Cmd {
    Range(RangeCmd),
    Exec { script: Script, log: bool },
    Quit,
}

pub fn make_script(property: &str, family: &dyn Family, tier: Tier, seed: u64, index: u64, total: u64) -> Script {
    let rs = run_seed(seed, property, family.name(), index);
    let mut rng = Rng::new(rs);
    let entropy_seed = rng.next();
    let body = family.generate(property, tier, index, total, &mut rng);
    Script {
        property: property.to_string(),
        family: family.name().to_string(),
        entropy_seed,
        gen_seed: seed,
        gen_index: index,
        body,
    }
}

/// Runs one script on a fresh thread. A panic escaping the family's executor is a harness error
/// reported as an inconclusive outcome with the panic text (the executors catch panics of the
/// code under test themselves).
pub fn run_script(script: &Script, want_log: bool) -> Outcome {
    let Some(family) = registry::family(&script.family) else {
        let mut o = Outcome::default();
        o.inconclusive = true;
        o.log.push(format!("unknown family {}", script.family));
        return o;
    };
    let sc = script.clone();
    let h = std::thread::Builder::new()
        .name("sim-run".into())
        .stack_size(family.stack_bytes())
        .spawn(move || {
            unsafe { detrand_reseed(sc.entropy_seed) };
            crate::panics::set_quiet(true);
            let _ = crate::panics::take_all();
            let opts = ExecOpts { want_log };
            family.execute(&sc.property, &sc.body, &opts)
        })
        .expect("spawn run thread");
    match h.join() {
        Ok(o) => o,
        Err(e) => {
            let msg = if let Some(s) = e.downcast_ref::<&str>() {
                s.to_string()
            } else if let Some(s) = e.downcast_ref::<String>() {
                s.clone()
            } else {
                "panic".into()
            };
            let mut o = Outcome::default();
            o.inconclusive = true;
            o.log.push(format!("HARNESS-PANIC: {msg}"));
            o.probes.insert("harness_panics".into(), 1);
            o
        }
    }
}

pub fn body_hash(v: &Value) -> u64 {
    let s = serde_json::to_string(v).unwrap_or_default();
    crate::rng::splitmix(crate::rng::fnv(&s))
}

#[derive(Default, Serialize, Deserialize, Clone, Debug)]
pub struct RangeStats {
    pub item: u64,
    pub family: String,
    pub evaluations: u64,
    pub nontrivial: u64,
    pub inconclusive: u64,
    pub violations: u64,
    pub probes: BTreeMap<String, u64>,
    pub faults: BTreeMap<String, u64>,
    pub virtual_ms: u64,
    pub steps: u64,
    pub dup_checked: u64,
    pub dup_diverged: u64,
    pub samples: Vec<Value>,
    pub wall_ms: u64,
    pub harness_errors: Vec<String>,
}

static CURRENT: AtomicU64 = AtomicU64::new(u64::MAX);
static CURRENT_STARTED_MS: AtomicU64 = AtomicU64::new(0);
static WATCHDOG_MS: AtomicU64 = AtomicU64::new(0);
static CURRENT_ITEM: AtomicU64 = AtomicU64::new(0);

fn now_ms(t0: Instant) -> u64 {
    t0.elapsed().as_millis() as u64
}

pub fn worker_main() {
    crate::panics::install();
    let t0 = Instant::now();
    // in-process watchdog: a run that exceeds its wall-clock budget is reported, then the process
    // exits (a `poll` that never returns cannot be interrupted any other way)
    {
        let t0 = t0;
        std::thread::spawn(move || loop {
            std::thread::sleep(Duration::from_millis(50));
            let cur = CURRENT.load(Ordering::SeqCst);
            let wd = WATCHDOG_MS.load(Ordering::SeqCst);
            if cur != u64::MAX && wd > 0 {
                let started = CURRENT_STARTED_MS.load(Ordering::SeqCst);
                if now_ms(t0) > started + wd {
                    let line = json!({"type":"hang","index":cur,"item":CURRENT_ITEM.load(Ordering::SeqCst),"after_ms":now_ms(t0)-started});
                    let out = std::io::stdout();
                    let mut l = out.lock();
                    let _ = writeln!(l, "{line}");
                    let _ = l.flush();
                    std::process::exit(3);
                }
            }
        });
    }
    let stdin = std::io::stdin();
    let mut warmed: HashSet<String> = HashSet::new();
    for line in stdin.lock().lines() {
        let Ok(line) = line else { break };
        if line.trim().is_empty() {
            continue;
        }
        let cmd: Cmd = match serde_json::from_str(&line) {
            Ok(c) => c,
            Err(e) => {
                emit(&json!({"type":"error","message":format!("bad command: {e}")}));
                continue;
            }
        };
        match cmd {
            Cmd::Quit => break,
            Cmd::Exec { script, log } => {
                let Some(fam) = registry::family(&script.family) else {
                    emit(&json!({"type":"error","message":format!("unknown family {}", script.family)}));
                    continue;
                };
                warm_up(&mut warmed, fam, &script.property);
                WATCHDOG_MS.store(fam.watchdog_ms(), Ordering::SeqCst);
                CURRENT_ITEM.store(0, Ordering::SeqCst);
                CURRENT_STARTED_MS.store(now_ms(t0), Ordering::SeqCst);
                CURRENT.store(script.gen_index, Ordering::SeqCst);
                let o = run_script(&script, log);
                CURRENT.store(u64::MAX, Ordering::SeqCst);
                emit(&json!({"type":"outcome","outcome":o}));
            }
            Cmd::Range(rc) => {
                run_range(&rc, t0, &mut warmed);
            }
        }
    }
}

fn warm_up(warmed: &mut HashSet<String>, fam: &'static dyn Family, property: &str) {
    if warmed.insert(fam.name().to_string()) {
        // one discarded run per (process, family): process-global lazy initialisation (regexes,
        // TLS provider tables, ...) consumes entropy once and must not land in a counted run
        let sc = make_script(property, fam, Tier::Quick, 0x5EED_0000_0000_0001, 0, 1);
        let _ = run_script(&sc, false);
    }
}

fn emit(v: &Value) {
    let out = std::io::stdout();
    let mut l = out.lock();
    let _ = writeln!(l, "{v}");
    let _ = l.flush();
}

fn run_range(rc: &RangeCmd, t0: Instant, warmed: &mut HashSet<String>) {
    let Some(fam) = registry::family(&rc.family) else {
        emit(&json!({"type":"error","message":format!("unknown family {}", rc.family)}));
        return;
    };
    let progress = std::fs::OpenOptions::new().create(true).write(true).truncate(false).open(&rc.progress_path).ok();
    // the discarded warm-up run is under the watchdog too (attributed to the first script of the
    // shard): a tree on which every run of a family livelocks must not hang the worker for good
    WATCHDOG_MS.store(fam.watchdog_ms(), Ordering::SeqCst);
    CURRENT_ITEM.store(rc.item, Ordering::SeqCst);
    if let Some(p) = &progress {
        let mut buf = [0u8; 16];
        buf[..8].copy_from_slice(&rc.item.to_le_bytes());
        buf[8..].copy_from_slice(&rc.start.to_le_bytes());
        let _ = p.write_all_at(&buf, 0);
    }
    CURRENT_STARTED_MS.store(now_ms(t0), Ordering::SeqCst);
    CURRENT.store(rc.start, Ordering::SeqCst);
    warm_up(warmed, fam, &rc.property);
    CURRENT.store(u64::MAX, Ordering::SeqCst);
    let mut stats = RangeStats { item: rc.item, family: rc.family.clone(), ..Default::default() };
    let mut nontrivial_bodies: HashSet<u64> = HashSet::new();
    let mut traces: HashSet<u64> = HashSet::new();
    let started = Instant::now();
    WATCHDOG_MS.store(fam.watchdog_ms(), Ordering::SeqCst);
    CURRENT_ITEM.store(rc.item, Ordering::SeqCst);
    let mut emitted = 0usize;
    let mut index = rc.start;
    while index < rc.end {
        let script = make_script(&rc.property, fam, rc.tier, rc.seed, index, rc.total);
        if let Some(p) = &progress {
            let mut buf = [0u8; 16];
            buf[..8].copy_from_slice(&rc.item.to_le_bytes());
            buf[8..].copy_from_slice(&index.to_le_bytes());
            let _ = p.write_all_at(&buf, 0);
        }
        CURRENT_STARTED_MS.store(now_ms(t0), Ordering::SeqCst);
        CURRENT.store(index, Ordering::SeqCst);
        let o = run_script(&script, false);
        CURRENT.store(u64::MAX, Ordering::SeqCst);
        stats.evaluations += 1;
        stats.steps += o.steps;
        stats.virtual_ms += o.virtual_ms;
        for (k, v) in &o.probes {
            if k.starts_with("max_") {
                let e = stats.probes.entry(k.clone()).or_insert(0);
                *e = (*e).max(*v);
            } else {
                *stats.probes.entry(k.clone()).or_insert(0) += v;
            }
        }
        for (k, v) in &o.faults {
            *stats.faults.entry(k.clone()).or_insert(0) += v;
        }
        for l in &o.log {
            if l.starts_with("HARNESS-PANIC") && stats.harness_errors.len() < 5 {
                stats.harness_errors.push(format!("index {index}: {l}"));
            }
        }
        if o.inconclusive {
            stats.inconclusive += 1;
        }
        traces.insert(o.trace_hash);
        if o.nontrivial {
            stats.nontrivial += 1;
            let bh = body_hash(&script.body);
            if nontrivial_bodies.insert(bh) && stats.samples.len() < 2 {
                stats.samples.push(serde_json::to_value(&script).unwrap());
            }
        }
        if !o.violations.is_empty() {
            stats.violations += 1;
            if emitted < rc.max_violations {
                emitted += 1;
                emit(&json!({"type":"violation","index":index,"item":rc.item,"script":script,"violations":o.violations}));
            }
        }
        if rc.dupcheck_every > 0 && (index / rc.step) % rc.dupcheck_every == 0 {
            let o2 = run_script(&script, false);
            stats.dup_checked += 1;
            if o2.full_hash != o.full_hash || o2.trace_hash != o.trace_hash {
                stats.dup_diverged += 1;
                emit(&json!({"type":"divergence","index":index,"item":rc.item,"script":script}));
            }
        }
        index += rc.step;
        // a tree on which this many runs of one family fail is broken beyond doubt: the rest of
        // the shard adds nothing (and each failing run may cost a spin budget or a watchdog)
        if stats.violations >= 100 {
            *stats.probes.entry("shard_stopped_early_after_100_violating_runs".into()).or_insert(0) += 1;
            break;
        }
    }
    stats.wall_ms = started.elapsed().as_millis() as u64;
    // hash sets go to a side file: 8-byte little-endian words, first the count of body hashes
    if let Ok(mut f) = std::fs::File::create(&rc.hashes_path) {
        let mut buf: Vec<u8> = Vec::with_capacity(16 + 8 * (nontrivial_bodies.len() + traces.len()));
        buf.extend_from_slice(&(nontrivial_bodies.len() as u64).to_le_bytes());
        for h in &nontrivial_bodies {
            buf.extend_from_slice(&h.to_le_bytes());
        }
        buf.extend_from_slice(&(traces.len() as u64).to_le_bytes());
        for h in &traces {
            buf.extend_from_slice(&h.to_le_bytes());
        }
        let _ = f.write_all(&buf);
    }
    emit(&json!({"type":"done","stats":stats}));
    let _ = Arc::new(0);
}
