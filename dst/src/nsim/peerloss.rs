//! C08 (N part) — a peer of a topic fails in one of the ways a real connection fails (connection
//! closed with an error, silent death detected by the idle timeout, stream stopped/reset, stream
//! finished, stalled and then dead) while the topic is carrying traffic through the whole stack:
//! real server, real routers over real `FramedWrite<SendStream>` sinks, real QUIC. Every surviving
//! subscriber must still receive every message of every surviving publisher exactly once and in
//! order, surviving requestors must be answered again once the failure has been detected, a
//! failed replier must be replaceable, and the topic must keep serving. This is the cross-check
//! of the R-engine's mock sinks against the real ones.

use super::e2e::mild_net;
use super::net::NetCfg;
use super::sim::*;
use crate::core::*;
use crate::rng::{Hasher64, Rng};
use anyhow::{anyhow, Result as AResult};
use bytes::Bytes;
use futures::{SinkExt, StreamExt};
use quinn::{TransportConfig, VarInt};
use selium::keep_alive::BackoffStrategy;
use selium::prelude::*;
use selium::std::codecs::StringCodec;
use selium_protocol::{Frame, MessagePayload, PublisherPayload, ReplierPayload, RequestorPayload, SubscriberPayload, TopicName};
use serde::{Deserialize, Serialize};
use serde_json::Value;
use std::cell::RefCell;
use std::collections::HashMap;
use std::rc::Rc;
use std::time::Duration;

#[derive(Clone, Copy, Debug, Serialize, Deserialize, PartialEq, Eq)]
#[serde(rename_all = "snake_case")]
pub enum How {
    /// CONNECTION_CLOSE with an application error code
    ConnClose,
    /// the peer's host vanishes; the server notices at its idle timeout
    Silent,
    /// STOP_SENDING on the receive half and/or RESET_STREAM on the send half
    StreamAbort { read: bool, write: bool },
    /// the send half is finished and the stream dropped, the connection stays up
    Finish,
    /// the peer never reads (tiny flow-control windows) and later vanishes
    StallThenSilent,
}

#[derive(Clone, Copy, Debug, Serialize, Deserialize, PartialEq, Eq)]
#[serde(rename_all = "snake_case")]
pub enum VRole {
    Sub,
    Pub,
    Requestor,
    Replier,
}

#[derive(Clone, Debug, Serialize, Deserialize)]
pub struct Victim {
    pub role: VRole,
    pub how: How,
    /// when the fault strikes, after traffic started
    pub at_ms: u64,
    /// registration position among the peers of the same role
    pub slot: usize,
    /// publisher / requestor victims: frames sent before the fault
    pub sends: usize,
}

#[derive(Clone, Debug, Serialize, Deserialize)]
pub struct PlScript {
    pub net: NetCfg,
    pub rt_seed: u64,
    pub idle_ms: u32,
    pub n_good_subs: usize,
    pub n_good_pubs: usize,
    pub msgs_per_pub: usize,
    pub gap_ms: u64,
    pub msg_size: usize,
    pub n_good_reqs: usize,
    pub call_gap_ms: u64,
    pub victims: Vec<Victim>,
}

impl PlScript {
    fn has(&self, r: VRole) -> bool {
        self.victims.iter().any(|v| v.role == r)
    }
    fn pubsub(&self) -> bool {
        self.has(VRole::Sub) || self.has(VRole::Pub)
    }
    fn reqrep(&self) -> bool {
        self.has(VRole::Requestor) || self.has(VRole::Replier)
    }
    fn last_fault_ms(&self) -> u64 {
        self.victims.iter().map(|v| v.at_ms).max().unwrap_or(0)
    }
}

fn gen_how(rng: &mut Rng, role: VRole) -> How {
    match rng.below(if role == VRole::Pub { 5 } else { 6 }) {
        0 => How::ConnClose,
        1 => How::Silent,
        2 => How::StreamAbort { read: true, write: false },
        3 => How::StreamAbort { read: rng.chance(1, 2), write: true },
        4 => How::Finish,
        _ => How::StallThenSilent,
    }
}

pub fn gen_script(rng: &mut Rng) -> PlScript {
    let side = rng.below(3); // 0 pub/sub, 1 request/reply, 2 both
    let mut victims = vec![];
    let traffic_ms;
    let msgs_per_pub = rng.usize(8, 40);
    let gap_ms = *rng.pick(&[2u64, 10, 40]);
    traffic_ms = msgs_per_pub as u64 * gap_ms;
    if side != 1 {
        for _ in 0..rng.usize(1, 2) {
            let role = if rng.chance(3, 4) { VRole::Sub } else { VRole::Pub };
            victims.push(Victim { role, how: gen_how(rng, role), at_ms: rng.range(0, traffic_ms + 50), slot: rng.usize(0, 4), sends: rng.usize(0, 10) });
        }
    }
    if side != 0 {
        // at most one replier victim; requestor victims as well
        if rng.chance(1, 2) {
            victims.push(Victim { role: VRole::Replier, how: gen_how(rng, VRole::Replier), at_ms: rng.range(0, 800), slot: 0, sends: 0 });
        }
        if victims.iter().all(|v| v.role != VRole::Replier) || rng.chance(1, 3) {
            victims.push(Victim { role: VRole::Requestor, how: gen_how(rng, VRole::Requestor), at_ms: rng.range(0, 800), slot: rng.usize(0, 2), sends: rng.usize(0, 6) });
        }
    }
    PlScript {
        net: mild_net(rng),
        rt_seed: rng.next(),
        idle_ms: *rng.pick(&[2_000u32, 5_000, 15_000]),
        n_good_subs: rng.usize(1, 3),
        n_good_pubs: rng.usize(1, 2),
        msgs_per_pub,
        gap_ms,
        msg_size: *rng.pick(&[8usize, 200, 3_000, 20_000]),
        n_good_reqs: rng.usize(1, 2),
        call_gap_ms: *rng.pick(&[50u64, 150, 400]),
        victims,
    }
}

#[derive(Debug, Default)]
pub struct PlReport {
    /// per good subscriber: everything it yielded
    pub sub_lists: Vec<Vec<String>>,
    /// per good publisher: how many sends returned Ok
    pub pub_sent: Vec<usize>,
    /// per good requestor: (call index, issued at ms after traffic start, outcome)
    pub calls: Vec<Vec<(usize, u64, Result<String, String>)>>,
    pub probe_ok: Option<bool>,
    /// network group of the replacement replier (its bind retries are logged as lost connections)
    pub replier_group: u32,
    pub notes: Vec<String>,
}

type Go = tokio::sync::watch::Receiver<bool>;

async fn wait_go(go: &mut Go) {
    while !*go.borrow() {
        if go.changed().await.is_err() {
            break;
        }
    }
}

fn payload(text: String) -> Frame {
    Frame::Message(MessagePayload { headers: None, message: Bytes::from(text) })
}

/// One victim: registers as a raw peer, behaves until its fault time, fails, and keeps whatever is
/// left of it alive so that nothing but the scripted fault is visible to the server.
async fn victim(world: Rc<World>, v: Victim, idx: usize, group: u32, mut go: Go, registered: tokio::sync::oneshot::Sender<bool>, notes: Rc<RefCell<Vec<String>>>) {
    let stall = v.how == How::StallThenSilent;
    let mut t = TransportConfig::default();
    if stall {
        t.stream_receive_window(VarInt::from_u32(2_048));
        t.receive_window(VarInt::from_u32(4_096));
    }
    let topic_ps = TopicName::try_from("/loss/feed").unwrap();
    let topic_rr = TopicName::try_from("/loss/rpc").unwrap();
    let first = match v.role {
        VRole::Sub => Frame::RegisterSubscriber(SubscriberPayload { topic: topic_ps, retention_policy: 0, operations: vec![] }),
        VRole::Pub => Frame::RegisterPublisher(PublisherPayload { topic: topic_ps, retention_policy: 0, operations: vec![] }),
        VRole::Requestor => Frame::RegisterRequestor(RequestorPayload { topic: topic_rr }),
        VRole::Replier => Frame::RegisterReplier(ReplierPayload { topic: topic_rr }),
    };
    let Ok((ep, conn)) = world.raw_trusted(group, Some(t)).await else {
        let _ = registered.send(false);
        return;
    };
    let Ok(mut stream) = raw_open(&conn, first).await else {
        let _ = registered.send(false);
        return;
    };
    let ok = matches!(stream.next().await, Some(Ok(Frame::Ok)));
    let _ = registered.send(ok);
    if !ok {
        notes.borrow_mut().push(format!("victim {idx} was not registered"));
        return;
    }
    {
        // behave until the fault time
        let at = v.at_ms;
        let mut go2 = go.clone();
        let fault_at = async move {
            wait_go(&mut go2).await;
            tokio::time::sleep(Duration::from_millis(at)).await;
        };
        let work = async {
            match v.role {
                VRole::Sub => {
                    if stall {
                        futures::future::pending::<()>().await;
                    }
                    while let Some(Ok(_)) = stream.next().await {}
                    futures::future::pending::<()>().await;
                }
                VRole::Pub => {
                    wait_go(&mut go).await;
                    for i in 0..v.sends {
                        if stream.send(payload(format!("V{idx}:{i}"))).await.is_err() {
                            break;
                        }
                        tokio::time::sleep(Duration::from_millis(at / (v.sends as u64 + 1))).await;
                    }
                    futures::future::pending::<()>().await;
                }
                VRole::Requestor => {
                    wait_go(&mut go).await;
                    for i in 0..v.sends {
                        let mut h = HashMap::new();
                        h.insert("req_id".to_string(), format!("{}", 900_000 + i));
                        if stream.send(Frame::Message(MessagePayload { headers: Some(h), message: Bytes::from(format!("VQ{idx}:{i}")) })).await.is_err() {
                            break;
                        }
                    }
                    if stall {
                        futures::future::pending::<()>().await;
                    }
                    while let Some(Ok(_)) = stream.next().await {}
                    futures::future::pending::<()>().await;
                }
                VRole::Replier => {
                    if stall {
                        futures::future::pending::<()>().await;
                    }
                    while let Some(Ok(f)) = stream.next().await {
                        if let Frame::Message(req) = f {
                            let mut body = b"v:".to_vec();
                            body.extend_from_slice(&req.message);
                            if stream.send(Frame::Message(MessagePayload { headers: req.headers, message: Bytes::from(body) })).await.is_err() {
                                break;
                            }
                        }
                    }
                    futures::future::pending::<()>().await;
                }
            }
        };
        tokio::pin!(fault_at);
        tokio::pin!(work);
        tokio::select! {
            biased;
            _ = &mut fault_at => {}
            _ = &mut work => {}
        }
    }
    // the fault
    match v.how {
        How::ConnClose => {
            conn.close(VarInt::from_u32(0x42), b"victim leaves");
        }
        How::Silent | How::StallThenSilent => {
            world.net.set_partition(group, true);
        }
        How::StreamAbort { read, write } => {
            if read {
                let _ = stream.read().stop(VarInt::from_u32(7));
            }
            if write {
                let _ = stream.write().reset(VarInt::from_u32(7));
            }
        }
        How::Finish => {
            let _ = tokio::time::timeout(Duration::from_secs(5), stream.finish()).await;
        }
    }
    if v.how == How::Finish {
        drop(stream);
        let _keep = (ep, conn);
        futures::future::pending::<()>().await;
    } else {
        if matches!(v.how, How::StreamAbort { read: false, .. }) {
            // the receive half is still open: a peer that stopped reading would be a slow peer,
            // which legitimately stalls its topic (C17), not a failed one
            while let Some(Ok(_)) = stream.next().await {}
        }
        let _keep = (ep, conn, stream);
        futures::future::pending::<()>().await;
    }
}

async fn scenario(world: Rc<World>, sc: PlScript) -> AResult<PlReport> {
    let mut rep = PlReport::default();
    world.start_server(ServerOpts { idle_timeout_ms: sc.idle_ms, send_window: None, stream_receive_window: None })?;
    let notes: Rc<RefCell<Vec<String>>> = Rc::new(RefCell::new(vec![]));
    let (go_tx, go_rx) = tokio::sync::watch::channel(false);
    let no_retry = BackoffStrategy::constant().with_max_attempts(0);
    // surviving clients keep their connections alive well inside the server's idle timeout
    let keep_alive_ms = (sc.idle_ms / 4) as u64;
    let mk = |g: u32| {
        let w = world.clone();
        let b = no_retry.clone();
        ACTOR.scope(g, async move {
            let certs = w.certs.clone();
            w.client_with(&certs, b, keep_alive_ms).await
        })
    };
    let (gs, gp, gq, gr) = (world.new_group(), world.new_group(), world.new_group(), world.new_group());
    let (subc, pubc, reqc) = (mk(gs).await?, mk(gp).await?, mk(gq).await?);
    let mut victim_tasks = vec![];
    let mut spawn_victim = |v: &Victim, idx: usize| {
        let (tx, rx) = tokio::sync::oneshot::channel();
        let g = world.new_group();
        victim_tasks.push(tokio::task::spawn_local(victim(world.clone(), v.clone(), idx, g, go_rx.clone(), tx, notes.clone())));
        rx
    };

    // ---- registrations, victims at their slots ------------------------------------------------
    let mut sub_lists: Vec<Rc<RefCell<Vec<String>>>> = vec![];
    if sc.pubsub() {
        let vsubs: Vec<(usize, &Victim)> = sc.victims.iter().enumerate().filter(|(_, v)| v.role == VRole::Sub).collect();
        for pos in 0..=sc.n_good_subs {
            for (idx, v) in vsubs.iter().filter(|(_, v)| v.slot.min(sc.n_good_subs) == pos) {
                let _ = spawn_victim(v, *idx).await;
            }
            if pos < sc.n_good_subs {
                let mut s = ACTOR.scope(gs, subc.subscriber("/loss/feed").with_decoder(StringCodec).open()).await?;
                let got = Rc::new(RefCell::new(vec![]));
                let g2 = got.clone();
                tokio::task::spawn_local(ACTOR.scope(gs, async move {
                    while let Some(r) = s.next().await {
                        match r {
                            Ok(m) => g2.borrow_mut().push(m),
                            Err(e) => {
                                g2.borrow_mut().push(format!("ERR:{e}"));
                                break;
                            }
                        }
                    }
                }));
                sub_lists.push(got);
            }
        }
    }
    let mut good_replier_started = false;
    let start_good_replier = |world: Rc<World>| async move {
        let b = BackoffStrategy::constant().with_step(Duration::from_millis(500)).with_max_attempts(400);
        let w = world.clone();
        let c = ACTOR
            .scope(gr, async move {
                let certs = w.certs.clone();
                w.client_with(&certs, b, keep_alive_ms).await
            })
            .await?;
        let mut r = ACTOR
            .scope(gr, c.replier("/loss/rpc").with_request_decoder(StringCodec).with_reply_encoder(StringCodec).with_handler(|q: String| async move { Ok::<_, anyhow::Error>(format!("g:{q}")) }).open())
            .await?;
        tokio::task::spawn_local(ACTOR.scope(gr, async move {
            let _keep = c;
            let _ = r.listen().await;
        }));
        Ok::<_, anyhow::Error>(())
    };
    let mut requestors = vec![];
    if sc.reqrep() {
        let vrep = sc.victims.iter().enumerate().find(|(_, v)| v.role == VRole::Replier);
        match vrep {
            Some((idx, v)) => {
                let _ = spawn_victim(v, idx).await;
            }
            None => {
                start_good_replier(world.clone()).await?;
                good_replier_started = true;
            }
        }
        let vreqs: Vec<(usize, &Victim)> = sc.victims.iter().enumerate().filter(|(_, v)| v.role == VRole::Requestor).collect();
        for pos in 0..=sc.n_good_reqs {
            for (idx, v) in vreqs.iter().filter(|(_, v)| v.slot.min(sc.n_good_reqs) == pos) {
                let _ = spawn_victim(v, *idx).await;
            }
            if pos < sc.n_good_reqs {
                let q = ACTOR.scope(gq, reqc.requestor("/loss/rpc").with_request_encoder(StringCodec).with_reply_decoder(StringCodec).with_request_timeout(Duration::from_secs(5))?.open()).await?;
                requestors.push(q);
            }
        }
    }
    tokio::time::sleep(Duration::from_millis(1000)).await;

    // ---- traffic --------------------------------------------------------------------------------
    let t0 = tokio::time::Instant::now();
    let _ = go_tx.send(true);
    let end_ms = sc.last_fault_ms() + sc.idle_ms as u64 + 20_000;
    let mut pub_tasks = vec![];
    if sc.pubsub() {
        let vpubs: Vec<(usize, &Victim)> = sc.victims.iter().enumerate().filter(|(_, v)| v.role == VRole::Pub).collect();
        for pos in 0..=sc.n_good_pubs {
            for (idx, v) in vpubs.iter().filter(|(_, v)| v.slot.min(sc.n_good_pubs) == pos) {
                let _ = spawn_victim(v, *idx).await;
            }
            if pos < sc.n_good_pubs {
                let mut p = ACTOR.scope(gp, pubc.publisher("/loss/feed").with_encoder(StringCodec).open()).await?;
                let (n, gap, size) = (sc.msgs_per_pub, sc.gap_ms, sc.msg_size);
                pub_tasks.push(tokio::task::spawn_local(ACTOR.scope(gp, async move {
                    let mut sent = 0;
                    for i in 0..n {
                        let mut m = format!("P{pos}:{i}:");
                        while m.len() < size {
                            m.push('x');
                        }
                        if p.send(m).await.is_err() {
                            break;
                        }
                        sent += 1;
                        tokio::time::sleep(Duration::from_millis(gap)).await;
                    }
                    let _ = p.finish().await;
                    sent
                })));
            }
        }
    }
    let mut call_tasks = vec![];
    for (r, q) in requestors.into_iter().enumerate() {
        let gap = sc.call_gap_ms;
        call_tasks.push(tokio::task::spawn_local(ACTOR.scope(gq, async move {
            let mut q = q;
            let mut out = vec![];
            let mut i = 0;
            loop {
                let issued = t0.elapsed().as_millis() as u64;
                if issued >= end_ms {
                    break;
                }
                let res = q.request(format!("Q{r}:{i}")).await.map_err(|e| e.to_string());
                out.push((i, issued, res));
                i += 1;
                tokio::time::sleep(Duration::from_millis(gap)).await;
            }
            out
        })));
    }
    if sc.reqrep() && !good_replier_started {
        // the replacement binds once the victim replier has failed (the library retries while the
        // server still holds the stale binding)
        let at = sc.victims.iter().find(|v| v.role == VRole::Replier).map(|v| v.at_ms).unwrap_or(0);
        tokio::time::sleep_until(t0 + Duration::from_millis(at + 100)).await;
        start_good_replier(world.clone()).await?;
    }
    for t in pub_tasks {
        rep.pub_sent.push(t.await.unwrap_or(0));
    }
    if sc.pubsub() {
        // complete, or nothing at all has arrived for 120 virtual seconds after the failure was
        // detectable (progress-based: under heavy reordering quinn's congestion window collapses
        // and the fan-out of a megabyte takes virtual minutes)
        let total = |l: &Vec<Rc<RefCell<Vec<String>>>>| l.iter().map(|g| g.borrow().len()).sum::<usize>();
        let mut last = total(&sub_lists);
        let mut deadline = (t0 + Duration::from_millis(end_ms)).max(tokio::time::Instant::now()) + Duration::from_secs(120);
        loop {
            let done = sub_lists.iter().all(|g| {
                let g = g.borrow();
                rep.pub_sent.iter().enumerate().all(|(p, n)| g.iter().filter(|m| m.starts_with(&format!("P{p}:"))).count() >= *n)
            });
            if done || tokio::time::Instant::now() >= deadline {
                break;
            }
            tokio::time::sleep(Duration::from_millis(200)).await;
            let now = total(&sub_lists);
            if now != last {
                last = now;
                deadline = deadline.max(tokio::time::Instant::now() + Duration::from_secs(120));
            }
        }
        tokio::time::sleep(Duration::from_millis(1000)).await;
    }
    for t in call_tasks {
        rep.calls.push(t.await.unwrap_or_default());
    }
    rep.sub_lists = sub_lists.iter().map(|g| g.borrow().clone()).collect();
    if sc.pubsub() {
        // the topic keeps serving: a fresh subscriber and publisher on the same topic
        tokio::time::sleep_until(t0 + Duration::from_millis(sc.last_fault_ms() + sc.idle_ms as u64 + 2_000)).await;
        let r: AResult<String> = async {
            let mut sub = ACTOR.scope(gs, subc.subscriber("/loss/feed").with_decoder(StringCodec).open()).await?;
            tokio::time::sleep(Duration::from_millis(500)).await;
            let mut p = ACTOR.scope(gp, pubc.publisher("/loss/feed").with_encoder(StringCodec).open()).await?;
            ACTOR.scope(gp, p.send("probe".to_string())).await?;
            let got = tokio::time::timeout(Duration::from_secs(20), ACTOR.scope(gs, sub.next())).await;
            let _ = p.finish().await;
            Ok(match got {
                Ok(Some(Ok(s))) => s,
                Ok(Some(Err(e))) => format!("ERR:{e}"),
                Ok(None) => "END".into(),
                Err(_) => "TIMEOUT".into(),
            })
        }
        .await;
        let r = r.unwrap_or_else(|e| format!("SETUP:{e:#}"));
        rep.probe_ok = Some(r == "probe");
        if r != "probe" {
            notes.borrow_mut().push(format!("probe: {}", short(&r)));
        }
    }
    rep.notes = notes.borrow().clone();
    rep.replier_group = gr;
    drop(victim_tasks);
    Ok(rep)
}

fn short(m: &str) -> String {
    m.chars().take(40).collect()
}

pub fn execute(prop: &str, sc: &PlScript, opts: &ExecOpts) -> Outcome {
    let mut out = Outcome::default();
    let sc2 = sc.clone();
    let res = run_world(sc.net, sc.rt_seed, Duration::from_secs(3600), move |world| scenario(world, sc2));
    let mut th = Hasher64::default();
    match res {
        Err(e) => {
            out.inconclusive = true;
            out.log.push(format!("world failed: {e:#}"));
        }
        Ok(r) => {
            fold(&mut out, prop, &r);
            let gr = match &r.value {
                Some(Ok(rep)) => Some(rep.replier_group),
                _ => None,
            };
            let lost = r.events.iter().any(|e| (e.message.contains("lost connection") || e.message.contains("Too many")) && (e.actor.is_none() || e.actor != gr));
            match &r.value {
                None => {
                    if lost {
                        out.inconclusive = true;
                    } else {
                        out.violate(prop, "scenario-timeout", "peer-loss", "the scenario did not finish within 3600 virtual seconds although no surviving client lost its connection".into());
                    }
                }
                Some(Err(e)) => {
                    out.inconclusive = true;
                    out.log.push(format!("setup error: {e:#}"));
                }
                Some(Ok(_)) if lost => out.inconclusive = true,
                Some(Ok(rep)) => {
                    for v in &sc.victims {
                        out.fault(&format!("{:?}_{}", v.role, match v.how {
                            How::ConnClose => "connection_closed",
                            How::Silent => "silent_death",
                            How::StreamAbort { .. } => "stream_stopped_or_reset",
                            How::Finish => "stream_finished",
                            How::StallThenSilent => "stalled_then_dead",
                        }).to_lowercase());
                    }
                    let sig = |v: &str| format!("peer-loss:{v}");
                    let kinds: Vec<String> = sc.victims.iter().map(|v| format!("{:?}/{:?}", v.role, v.how)).collect();
                    for (si, got) in rep.sub_lists.iter().enumerate() {
                        th.word(got.len() as u64);
                        if let Some(e) = got.iter().find(|m| m.starts_with("ERR:")) {
                            out.violate(prop, "survivor-stream-error", &sig("subscriber"), format!("surviving subscriber {si} yielded an error ({e}) after {kinds:?}"));
                            continue;
                        }
                        for (p, n) in rep.pub_sent.iter().enumerate() {
                            let mine: Vec<usize> = got.iter().filter(|m| m.starts_with(&format!("P{p}:"))).filter_map(|m| m.split(':').nth(1).and_then(|x| x.parse().ok())).collect();
                            let want: Vec<usize> = (0..*n).collect();
                            if mine != want {
                                let tag = if mine.len() < want.len() {
                                    "survivor-lost-messages"
                                } else if mine.len() > want.len() {
                                    "survivor-duplicate-messages"
                                } else {
                                    "survivor-reordered-messages"
                                };
                                out.violate(prop, tag, &sig("subscriber"), format!("surviving subscriber {si} received {} of the {} messages of surviving publisher {p} (first indices {:?}) after {kinds:?}", mine.len(), want.len(), mine.iter().take(6).collect::<Vec<_>>()));
                                break;
                            }
                        }
                        // what a failed publisher managed to send arrives in order, once
                        for (idx, v) in sc.victims.iter().enumerate().filter(|(_, v)| v.role == VRole::Pub) {
                            let mine: Vec<usize> = got.iter().filter(|m| m.starts_with(&format!("V{idx}:"))).filter_map(|m| m.split(':').nth(1).and_then(|x| x.parse().ok())).collect();
                            if mine.windows(2).any(|w| w[1] != w[0] + 1) || mine.first().is_some_and(|f| *f != 0) || mine.len() > v.sends {
                                out.violate(prop, "failed-publisher-messages-garbled", &sig("subscriber"), format!("subscriber {si} received {mine:?} from failed publisher {idx}"));
                            }
                        }
                        let foreign = got.iter().find(|m| !m.starts_with('P') && !m.starts_with('V') && m.as_str() != "probe");
                        if let Some(f) = foreign {
                            out.violate(prop, "unknown-message", &sig("subscriber"), format!("subscriber {si} received {:?}", short(f)));
                        }
                    }
                    if rep.probe_ok == Some(false) {
                        out.violate(prop, "topic-dead-after-peer-loss", &sig("pubsub"), format!("a fresh subscriber and publisher could not exchange a message on the topic after {kinds:?}"));
                    }
                    // request/reply: attribution always; service after the failure was detectable
                    let late_from = sc.last_fault_ms() + sc.idle_ms as u64 + 10_000;
                    for (ri, calls) in rep.calls.iter().enumerate() {
                        th.word(calls.len() as u64);
                        for (i, _, res) in calls {
                            if let Ok(s) = res {
                                let q = format!("Q{ri}:{i}");
                                if *s != format!("g:{q}") && *s != format!("v:{q}") {
                                    out.violate(prop, "reply-misattributed", &sig("requestor"), format!("call {q} returned {:?}", short(s)));
                                }
                            }
                        }
                        let late: Vec<&(usize, u64, Result<String, String>)> = calls.iter().filter(|c| c.1 >= late_from).collect();
                        if late.is_empty() {
                            continue;
                        }
                        let ok = late.iter().filter(|c| c.2.is_ok()).count();
                        let clean = sc.net.loss_ppm == 0;
                        if ok == 0 || (clean && ok < late.len()) {
                            let firsterr = late.iter().find_map(|c| c.2.as_ref().err()).cloned().unwrap_or_default();
                            out.violate(prop, "survivor-requests-unanswered", &sig("requestor"), format!("surviving requestor {ri}: {} of {} calls issued more than 10 s after the failure was detectable succeeded (first error: {firsterr}) after {kinds:?}", ok, late.len()));
                        }
                        if sc.has(VRole::Replier) && late.iter().any(|c| matches!(&c.2, Ok(s) if s.starts_with("v:"))) {
                            out.violate(prop, "failed-replier-still-answers", &sig("requestor"), "a reply from the failed replier arrived long after its failure".into());
                        }
                    }
                    out.nontrivial = true;
                    out.steps = rep.sub_lists.iter().map(|l| l.len() as u64).sum::<u64>() + rep.calls.iter().map(|c| c.len() as u64).sum::<u64>();
                    out.probe_n("survivor_messages_checked", rep.sub_lists.iter().map(|l| l.len() as u64).sum());
                    out.probe_n("survivor_calls_checked", rep.calls.iter().map(|c| c.len() as u64).sum());
                    if opts.want_log {
                        out.log.push(format!("pub_sent {:?}", rep.pub_sent));
                        for (i, l) in rep.sub_lists.iter().enumerate() {
                            out.log.push(format!("sub {i}: {:?}", l.iter().map(|m| short(m)).collect::<Vec<_>>()));
                        }
                        for (i, c) in rep.calls.iter().enumerate() {
                            out.log.push(format!("requestor {i}: {:?}", c.iter().map(|(i, t, r)| format!("{i}@{t}:{}", match r { Ok(s) => short(s), Err(e) => format!("E({})", short(e)) })).collect::<Vec<_>>()));
                        }
                        out.log.push(format!("notes {:?} probe {:?}", rep.notes, rep.probe_ok));
                    }
                }
            }
            th.word(r.net_trace);
            if opts.want_log && std::env::var("DST_EVENTS").is_ok() {
                for e in r.events.iter().take(400) {
                    out.log.push(format!("event @{} actor={:?} {} {:?}", e.at_ms, e.actor, e.message, e.fields));
                }
            }
        }
    }
    out.trace_hash = th.finish();
    out.full_hash = th.finish();
    out
}

pub struct PeerLoss;
pub static PEER_LOSS: PeerLoss = PeerLoss;

impl Family for PeerLoss {
    fn name(&self) -> &'static str {
        "peer-loss"
    }
    fn engine(&self) -> &'static str {
        "N"
    }
    fn generate(&self, _p: &str, _t: Tier, _i: u64, _n: u64, rng: &mut Rng) -> Value {
        serde_json::to_value(gen_script(rng)).unwrap()
    }
    fn execute(&self, property: &str, body: &Value, opts: &ExecOpts) -> Outcome {
        match serde_json::from_value::<PlScript>(body.clone()) {
            Ok(sc) => execute(property, &sc, opts),
            Err(e) => {
                let mut o = Outcome::default();
                o.inconclusive = true;
                o.log.push(format!("bad script: {e}"));
                o
            }
        }
    }
    fn shrink(&self, body: &Value) -> Vec<Value> {
        let Ok(sc) = serde_json::from_value::<PlScript>(body.clone()) else { return vec![] };
        let mut out = vec![];
        if sc.victims.len() > 1 {
            for i in 0..sc.victims.len() {
                let mut c = sc.clone();
                c.victims.remove(i);
                out.push(c);
            }
        }
        if sc.net.loss_ppm > 0 || sc.net.dup_ppm > 0 || sc.net.jitter_ms > 0 {
            let mut c = sc.clone();
            c.net.loss_ppm = 0;
            c.net.dup_ppm = 0;
            c.net.jitter_ms = 0;
            out.push(c);
        }
        for (f, v) in [(0usize, 1usize), (1, 1), (2, 8), (3, 1)] {
            let mut c = sc.clone();
            let slot = match f {
                0 => &mut c.n_good_subs,
                1 => &mut c.n_good_pubs,
                2 => &mut c.msgs_per_pub,
                _ => &mut c.n_good_reqs,
            };
            if *slot > v {
                *slot = v;
                out.push(c);
            }
        }
        if sc.msg_size > 8 {
            let mut c = sc.clone();
            c.msg_size = 8;
            out.push(c);
        }
        if sc.idle_ms > 2_000 {
            let mut c = sc.clone();
            c.idle_ms = 2_000;
            out.push(c);
        }
        for i in 0..sc.victims.len() {
            if sc.victims[i].sends > 0 {
                let mut c = sc.clone();
                c.victims[i].sends = 0;
                out.push(c);
            }
        }
        out.into_iter().map(|s| serde_json::to_value(s).unwrap()).collect()
    }
    fn watchdog_ms(&self) -> u64 {
        40_000
    }
}
