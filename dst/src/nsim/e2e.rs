//! End-to-end pub/sub through the whole simulated stack (C03, C14): real Publisher/Subscriber with
//! every codec x compression x batching configuration, real server, real QUIC over SimNet.

use super::net::NetCfg;
use super::sim::*;
use crate::core::*;
use crate::rng::{Hasher64, Rng};
use crate::wsim::hostile::Rec;
use anyhow::Result as AResult;
use bytes::Bytes;
use futures::{SinkExt, StreamExt};
use selium::batching::BatchConfig;
use selium::keep_alive::BackoffStrategy;
use selium::prelude::*;
use selium::std::codecs::{BincodeCodec, BytesCodec, StringCodec};
use selium::std::compression::brotli::{BrotliComp, BrotliDecomp};
use selium::std::compression::deflate::{DeflateComp, DeflateDecomp};
use selium::std::compression::lz4::{Lz4Comp, Lz4Decomp};
use selium::std::compression::zstd::{ZstdComp, ZstdDecomp};
use selium::std::traits::codec::{MessageDecoder, MessageEncoder};
use selium::std::traits::compression::{Compress, CompressionLevel, Decompress};
use selium::Client;
use serde::{Deserialize, Serialize};
use serde_json::Value;
use std::fmt::Debug;
use std::cell::RefCell;
use std::rc::Rc;
use std::time::Duration;

#[derive(Clone, Copy, Debug, Serialize, Deserialize, PartialEq)]
#[serde(rename_all = "snake_case")]
pub enum CodecKind {
    String,
    Bytes,
    Bincode,
}

#[derive(Clone, Copy, Debug, Serialize, Deserialize, PartialEq)]
#[serde(rename_all = "snake_case")]
pub enum CompKind {
    Gzip,
    Zlib,
    Zstd,
    Lz4,
    BrotliGeneric,
    BrotliText,
    BrotliFont,
}

#[derive(Clone, Copy, Debug, Serialize, Deserialize, PartialEq)]
#[serde(rename_all = "snake_case")]
pub enum Level {
    Default,
    Fastest,
    Balanced,
    Highest,
    Explicit(u32),
}

#[derive(Clone, Copy, Debug, Serialize, Deserialize, PartialEq)]
#[serde(rename_all = "snake_case")]
pub enum Pattern {
    SendEach,
    FeedThenFlush,
    /// feed() every item and rely on finish() alone to hand them to the transport
    FeedThenFinish,
    SendAll,
}

#[derive(Clone, Debug, Serialize, Deserialize)]
pub struct StreamSpec {
    pub codec: CodecKind,
    pub comp: Option<(CompKind, Level)>,
    /// (batch size, interval ms)
    pub batching: Option<(u32, u64)>,
    pub n_subs: usize,
    /// (size, fill) per message
    pub payloads: Vec<(usize, u64)>,
    pub pattern: Pattern,
    /// virtual milliseconds slept before send i (cyclic)
    pub gaps_ms: Vec<u64>,
    /// subscribers are read while the publisher is still sending (otherwise only after finish()
    /// returned, which needs the whole exchange to fit into the flow-control windows)
    #[serde(default)]
    pub early_readers: bool,
    /// subscriber churn around the judged ones: an extra subscriber registers first and goes away
    /// before the first send, another one joins half-way through; the judged subscribers
    /// (registered in between) must not notice
    #[serde(default)]
    pub churn: bool,
    /// half-way through, with items still waiting in the publisher's batch, the publisher is
    /// duplicated and the duplicate finished at once without having been given anything: it owns
    /// nothing and must send nothing
    #[serde(default)]
    pub dup_idle: bool,
}

impl StreamSpec {
    pub fn total_bytes(&self) -> usize {
        self.payloads.iter().map(|p| p.0).sum()
    }
}

pub struct DynComp(pub Box<dyn Compress + Send + Sync>);
impl Compress for DynComp {
    fn compress(&self, input: Bytes) -> anyhow::Result<Bytes> {
        self.0.compress(input)
    }
}
pub struct DynDecomp(pub Box<dyn Decompress + Send + Sync>);
impl Decompress for DynDecomp {
    fn decompress(&self, input: Bytes) -> anyhow::Result<Bytes> {
        self.0.decompress(input)
    }
}

fn leveled<T: CompressionLevel>(c: T, l: Level) -> T {
    match l {
        Level::Default => c,
        Level::Fastest => c.fastest(),
        Level::Balanced => c.balanced(),
        Level::Highest => c.highest_ratio(),
        Level::Explicit(n) => c.level(n),
    }
}

pub fn make_comp(kind: CompKind, level: Level) -> DynComp {
    DynComp(match kind {
        CompKind::Gzip => Box::new(leveled(DeflateComp::gzip(), level)),
        CompKind::Zlib => Box::new(leveled(DeflateComp::zlib(), level)),
        CompKind::Zstd => Box::new(leveled(ZstdComp::new(), level)),
        CompKind::Lz4 => Box::new(Lz4Comp),
        CompKind::BrotliGeneric => Box::new(leveled(BrotliComp::generic(), level)),
        CompKind::BrotliText => Box::new(leveled(BrotliComp::text(), level)),
        CompKind::BrotliFont => Box::new(leveled(BrotliComp::font(), level)),
    })
}

pub fn make_decomp(kind: CompKind) -> DynDecomp {
    DynDecomp(match kind {
        CompKind::Gzip => Box::new(DeflateDecomp::gzip()),
        CompKind::Zlib => Box::new(DeflateDecomp::zlib()),
        CompKind::Zstd => Box::new(ZstdDecomp),
        CompKind::Lz4 => Box::new(Lz4Decomp),
        CompKind::BrotliGeneric | CompKind::BrotliText | CompKind::BrotliFont => Box::new(BrotliDecomp),
    })
}

pub fn max_level(kind: CompKind) -> (u32, u32) {
    match kind {
        CompKind::Gzip | CompKind::Zlib => (0, 9),
        CompKind::Zstd => (1, 22),
        CompKind::Lz4 => (0, 0),
        _ => (0, 11),
    }
}

pub fn gen_transform(rng: &mut Rng) -> (CodecKind, Option<(CompKind, Level)>) {
    let codec = *rng.pick(&[CodecKind::String, CodecKind::Bytes, CodecKind::Bincode]);
    let comp = if rng.chance(1, 4) {
        None
    } else {
        let kind = *rng.pick(&[CompKind::Gzip, CompKind::Zlib, CompKind::Zstd, CompKind::Lz4, CompKind::BrotliGeneric, CompKind::BrotliText, CompKind::BrotliFont]);
        let (lo, hi) = max_level(kind);
        let level = match rng.below(6) {
            0 => Level::Default,
            1 => Level::Fastest,
            2 => Level::Balanced,
            3 => Level::Highest,
            _ => Level::Explicit(rng.range(lo as u64, hi as u64) as u32),
        };
        Some((kind, level))
    };
    (codec, comp)
}

/// payload classes: empty, 1 byte, incompressible, highly repetitive, structured text
pub fn text_of(i: usize, size: usize, fill: u64) -> String {
    if size == 0 {
        // a truly empty item (no index prefix): empty messages are legal and have their own paths
        return String::new();
    }
    let mut r = Rng::new(fill);
    let mut s = format!("{i}:");
    match fill % 3 {
        0 => {
            while s.len() < size {
                s.push('a');
            }
        }
        1 => {
            while s.len() < size {
                s.push_str(*r.pick(&["the ", "quick ", "brown ", "fox ", "é", "中", "{\"k\":1}", "\n"]));
            }
        }
        _ => {
            while s.len() < size {
                s.push(char::from_u32(0x21 + (r.next() % 90) as u32).unwrap());
            }
        }
    }
    s
}

pub fn bytes_of(i: usize, size: usize, fill: u64) -> Vec<u8> {
    if size == 0 {
        return vec![];
    }
    if fill % 4 == 3 && size >= 8 {
        // data that already is a compressed stream (a .zst / .gz / .lz4 / .br file sent as a
        // message): it starts with that format's magic number and does not shrink again
        let kind = [CompKind::Zstd, CompKind::Gzip, CompKind::Zlib, CompKind::Lz4, CompKind::BrotliGeneric][((fill >> 8) % 5) as usize];
        let inner = text_of(i, size.min(60_000), (fill >> 2) * 3 + 1);
        if let Ok(b) = make_comp(kind, Level::Default).compress(bytes::Bytes::from(inner)) {
            return b.to_vec();
        }
    }
    let mut v = format!("{i}:").into_bytes();
    if fill % 3 == 0 {
        v.resize(size.max(v.len()), (fill >> 8) as u8);
    } else {
        let extra = size.saturating_sub(v.len());
        v.extend_from_slice(&Rng::new(fill).bytes(extra));
    }
    v
}

pub fn rec_of(i: usize, size: usize, fill: u64) -> Rec {
    let mut r = Rng::new(fill);
    Rec { name: text_of(i, size.min(200), fill), id: r.next(), tags: (0..r.usize(0, 3)).map(|k| format!("t{k}")).collect(), blob: bytes_of(i, size, fill), opt: if r.chance(1, 2) { Some(i as u32) } else { None } }
}

#[derive(Debug, Default, Clone)]
pub struct StreamReport {
    pub mismatches: Vec<(String, String, String)>, // (tag, signature, detail)
    pub sent: usize,
    pub refused: usize,
    pub received: Vec<usize>,
    pub notes: Vec<String>,
    pub batches_by_size: bool,
    pub partial_final_batch: bool,
}

fn classify<Item: PartialEq + Debug>(sent: &[Item], got: &[Item]) -> (String, String) {
    if got.len() < sent.len() && sent[..got.len()] == got[..] {
        return ("messages-lost".into(), format!("tail-missing:{}", if got.is_empty() { "all" } else { "some" }));
    }
    if got.len() == sent.len() {
        let mut a: Vec<String> = sent.iter().map(|x| format!("{x:?}")).collect();
        let mut b: Vec<String> = got.iter().map(|x| format!("{x:?}")).collect();
        a.sort();
        b.sort();
        if a == b {
            return ("messages-reordered".into(), "same-multiset".into());
        }
    }
    if got.len() > sent.len() {
        return ("messages-duplicated-or-foreign".into(), "more-than-sent".into());
    }
    ("messages-differ".into(), "content".into())
}

/// One publisher and `n_subs` subscribers on `topic`, configured per `spec`.
#[allow(clippy::too_many_arguments)]
pub async fn run_stream<E, D, Item>(pub_client: &Client, pub_group: u32, sub_client: &Client, sub_group: u32, topic: &str, spec: &StreamSpec, encoder: E, decoder: D, items: Vec<Item>) -> AResult<StreamReport>
where
    E: MessageEncoder<Item> + Clone + Send + Unpin + 'static,
    D: MessageDecoder<Item> + Clone + Send + Unpin + 'static,
    Item: Clone + PartialEq + Debug + Unpin + Send + 'static,
{
    let mut rep = StreamReport::default();
    // subscribers first; their registration gets a settle period
    let mut subs: Vec<_> = vec![];
    let mut leaver = None;
    if spec.churn {
        leaver = Some(ACTOR.scope(sub_group, sub_client.subscriber(topic).with_decoder(decoder.clone()).open()).await?);
    }
    for _ in 0..spec.n_subs.max(1) {
        let mut b = sub_client.subscriber(topic).with_decoder(decoder.clone());
        if let Some((kind, _)) = spec.comp {
            b = b.with_decompression(make_decomp(kind));
        }
        subs.push(ACTOR.scope(sub_group, b.open()).await?);
    }
    // the first-registered subscriber leaves (the server finds out when it next writes to it)
    drop(leaver);
    let mut joiner = None;
    tokio::time::sleep(Duration::from_millis(1000)).await;
    let size_probe = encoder.clone();
    let mut b = pub_client.publisher(topic).with_encoder(encoder);
    if let Some((kind, level)) = spec.comp {
        b = b.with_compression(make_comp(kind, level));
    }
    if let Some((size, interval)) = spec.batching {
        b = b.with_batching(BatchConfig::new(size, Duration::from_millis(interval)));
    }
    let mut publisher = ACTOR.scope(pub_group, b.open()).await?;
    let mut accepted: Vec<Item> = vec![];
    // Each subscriber is read by its own task, which is polled only when the subscriber itself
    // asks to be woken (a timeout around next() would re-poll it and mask a lost wake-up).
    type Readers<Item> = Vec<(Rc<RefCell<Vec<Item>>>, Rc<RefCell<Vec<String>>>, tokio::task::JoinHandle<()>)>;
    let mut readers: Readers<Item> = vec![];
    let spawn_readers = |subs: &mut Vec<selium::keep_alive::pubsub::KeepAlive<selium::pubsub::Subscriber<D, Item>>>, readers: &mut Readers<Item>| {
        for (si, mut sub) in subs.drain(..).enumerate() {
            let got: Rc<RefCell<Vec<Item>>> = Rc::new(RefCell::new(vec![]));
            let errs: Rc<RefCell<Vec<String>>> = Rc::new(RefCell::new(vec![]));
            let (g2, e2) = (got.clone(), errs.clone());
            let task = tokio::task::spawn_local(ACTOR.scope(sub_group, async move {
                while let Some(item) = sub.next().await {
                    match item {
                        Ok(x) => g2.borrow_mut().push(x),
                        Err(e) => {
                            e2.borrow_mut().push(format!("subscriber {si} error: {e}"));
                            if e2.borrow().len() > 3 {
                                break;
                            }
                        }
                    }
                }
            }));
            readers.push((got, errs, task));
        }
    };
    if spec.early_readers {
        spawn_readers(&mut subs, &mut readers);
    }
    // send_all() that failed half-way: what it had accepted is unknown, only a prefix may arrive
    let mut offered_prefix_only = false;
    let gap = |i: usize| -> u64 {
        if spec.gaps_ms.is_empty() {
            0
        } else {
            spec.gaps_ms[i % spec.gaps_ms.len()]
        }
    };
    match spec.pattern {
        Pattern::SendAll => {
            let mut st = futures::stream::iter(items.clone().into_iter().map(Ok));
            match ACTOR.scope(pub_group, publisher.send_all(&mut st)).await {
                Ok(()) => accepted = items.clone(),
                Err(e) => {
                    rep.notes.push(format!("send_all failed: {e}"));
                    rep.refused += 1;
                    // what was accepted before the failure is unknown: nothing is owed, but
                    // nothing other than a prefix of what was offered may arrive
                    accepted = items.clone();
                    offered_prefix_only = true;
                }
            }
        }
        p => {
            for (i, it) in items.iter().enumerate() {
                let g = gap(i);
                if g > 0 {
                    tokio::time::sleep(Duration::from_millis(g)).await;
                }
                if spec.churn && i == items.len() / 2 && i > 0 && joiner.is_none() {
                    // a newcomer half-way through (kept alive, never judged)
                    let mut b = sub_client.subscriber(topic).with_decoder(decoder.clone());
                    if let Some((kind, _)) = spec.comp {
                        b = b.with_decompression(make_decomp(kind));
                    }
                    if let Ok(mut j) = ACTOR.scope(sub_group, b.open()).await {
                        joiner = Some(tokio::task::spawn_local(ACTOR.scope(sub_group, async move { while let Some(_) = j.next().await {} })));
                        tokio::time::sleep(Duration::from_millis(300)).await;
                    }
                }
                if spec.dup_idle && i == items.len() / 2 && i > 0 {
                    match ACTOR.scope(pub_group, publisher.duplicate()).await {
                        Ok(d) => {
                            if let Err(e) = ACTOR.scope(pub_group, d.finish()).await {
                                rep.notes.push(format!("finish of the idle duplicate failed: {e}"));
                            }
                        }
                        Err(e) => rep.notes.push(format!("duplicate() failed: {e}")),
                    }
                }
                let r = if p == Pattern::SendEach { ACTOR.scope(pub_group, publisher.send(it.clone())).await } else { ACTOR.scope(pub_group, publisher.feed(it.clone())).await };
                if std::env::var("DST_EVENTS").is_ok() {
                    rep.notes.push(format!("send {i} returned at {} ms", virtual_ms()));
                }
                match r {
                    Ok(()) => accepted.push(it.clone()),
                    Err(e) => {
                        rep.refused += 1;
                        rep.notes.push(format!("send {i} refused: {e}"));
                        // a refusal has to have a reason: an item whose encoding is far below the
                        // frame limit (no transform grows data by a tenth) is owed acceptance
                        let text = e.to_string();
                        let size = size_probe.encode(it.clone()).map(|b| b.len()).unwrap_or(usize::MAX);
                        if size <= 900_000 && (text.contains("Payload size") || text.contains("greater than maximum")) {
                            rep.mismatches.push(("legal-item-refused".into(), format!("{:?}", spec.batching.is_some()), format!("item {i}, {size} bytes once encoded, was refused by the publisher: {text} (spec: codec {:?} comp {:?} batching {:?} pattern {:?})", spec.codec, spec.comp, spec.batching, spec.pattern)));
                        }
                    }
                }
            }
            if p == Pattern::FeedThenFlush {
                if let Err(e) = ACTOR.scope(pub_group, publisher.flush()).await {
                    rep.notes.push(format!("flush failed: {e}"));
                }
            }
        }
    }
    rep.sent = if offered_prefix_only { 0 } else { accepted.len() };
    if let Some((size, _)) = spec.batching {
        rep.batches_by_size = accepted.len() >= size as usize && size > 0;
        rep.partial_final_batch = size > 0 && accepted.len() % (size as usize) != 0;
    }
    let fin = ACTOR.scope(pub_group, publisher.finish()).await;
    if let Err(e) = &fin {
        rep.notes.push(format!("finish failed: {e}"));
    }
    if std::env::var("DST_EVENTS").is_ok() {
        rep.notes.push(format!("finish returned at {} ms", virtual_ms()));
    }
    if !spec.early_readers {
        spawn_readers(&mut subs, &mut readers);
    }
    // The scenario waits until everything arrived or nothing at all has arrived for 180 virtual
    // seconds (progress-based: under heavy reordering quinn's congestion window collapses and a
    // megabyte takes a virtual minute).
    let count = |readers: &Readers<Item>| readers.iter().map(|(g, _, _)| g.borrow().len()).sum::<usize>();
    let mut last = count(&readers);
    let mut deadline = tokio::time::Instant::now() + Duration::from_secs(180);
    loop {
        if readers.iter().all(|(g, _, _)| g.borrow().len() >= accepted.len()) || tokio::time::Instant::now() >= deadline {
            break;
        }
        tokio::time::sleep(Duration::from_millis(100)).await;
        let now = count(&readers);
        if now != last {
            last = now;
            deadline = tokio::time::Instant::now() + Duration::from_secs(180);
        }
    }
    // look a little further for duplicates / foreign items
    tokio::time::sleep(Duration::from_millis(1500)).await;
    for (si, (got, errs, task)) in readers.into_iter().enumerate() {
        task.abort();
        let got: Vec<Item> = got.borrow().clone();
        rep.notes.extend(errs.borrow().iter().cloned());
        rep.received.push(got.len());
        if offered_prefix_only {
            if got.len() > accepted.len() || accepted[..got.len()] != got[..] {
                let (tag, sig) = classify(&accepted, &got);
                rep.mismatches.push((tag, format!("after-failed-send_all:{sig}"), format!("subscriber {si}: after a failed send_all() it yielded {} items that are not a prefix of the {} offered", got.len(), accepted.len())));
            }
            continue;
        }
        if fin.is_ok() && got != accepted {
            let (tag, sig) = classify(&accepted, &got);
            let show = |v: &[Item]| -> String { v.iter().take(6).map(|x| { let s = format!("{x:?}"); s.chars().take(24).collect::<String>() }).collect::<Vec<_>>().join(",") };
            rep.mismatches.push((tag, sig, format!("subscriber {si}: publisher accepted {} items [{}], subscriber yielded {} [{}] (spec: codec {:?} comp {:?} batching {:?} pattern {:?})", accepted.len(), show(&accepted), got.len(), show(&got), spec.codec, spec.comp, spec.batching, spec.pattern)));
        }
    }
    Ok(rep)
}

pub async fn run_spec(pub_client: &Client, pub_group: u32, sub_client: &Client, sub_group: u32, topic: &str, spec: &StreamSpec) -> AResult<StreamReport> {
    match spec.codec {
        CodecKind::String => {
            let items: Vec<String> = spec.payloads.iter().enumerate().map(|(i, (s, f))| text_of(i, *s, *f)).collect();
            run_stream(pub_client, pub_group, sub_client, sub_group, topic, spec, StringCodec, StringCodec, items).await
        }
        CodecKind::Bytes => {
            let items: Vec<Vec<u8>> = spec.payloads.iter().enumerate().map(|(i, (s, f))| bytes_of(i, *s, *f)).collect();
            run_stream(pub_client, pub_group, sub_client, sub_group, topic, spec, BytesCodec, BytesCodec, items).await
        }
        CodecKind::Bincode => {
            let items: Vec<Rec> = spec.payloads.iter().enumerate().map(|(i, (s, f))| rec_of(i, *s, *f)).collect();
            run_stream(pub_client, pub_group, sub_client, sub_group, topic, spec, BincodeCodec::<Rec>::default(), BincodeCodec::<Rec>::default(), items).await
        }
    }
}

#[derive(Clone, Debug, Serialize, Deserialize)]
pub struct E2eScript {
    pub net: NetCfg,
    pub rt_seed: u64,
    pub streams: Vec<StreamSpec>,
}

pub fn mild_net(rng: &mut Rng) -> NetCfg {
    NetCfg { seed: rng.next(), loss_ppm: *rng.pick(&[0u32, 0, 0, 5_000, 20_000, 50_000]), dup_ppm: *rng.pick(&[0u32, 0, 10_000, 30_000]), min_delay_ms: rng.range(1, 15) as u32, jitter_ms: *rng.pick(&[0u32, 0, 3, 20, 60]) }
}

fn gen_size(rng: &mut Rng, big_ok: bool) -> usize {
    match rng.below(100) {
        0..=9 => 0,
        10..=19 => 1,
        20..=69 => rng.usize(2, 80),
        70..=92 => rng.usize(81, 3000),
        93..=98 => rng.usize(3001, 40_000),
        _ => {
            if big_ok {
                *rng.pick(&[200_000usize, 900_000, 1_048_000, 1_100_000])
            } else {
                // beyond the 32/64 KiB internal buffers of the stream compressors
                *rng.pick(&[40_000usize, 65_536, 65_537, 70_000, 131_072, 262_144])
            }
        }
    }
}

/// C03: one stream per run; message counts chosen relative to the batch size; gaps so that
/// interval-triggered batches happen.
pub fn gen_c03(rng: &mut Rng) -> E2eScript {
    let (codec, mut comp) = gen_transform(rng);
    let batching = if rng.chance(2, 5) { None } else { Some((*rng.pick(&[1u32, 2, 3, 4, 5, 8, 10, 100, 250, 300]), *rng.pick(&[0u64, 1, 100, 100, 10_000]))) };
    let n = match batching {
        Some((size, _)) => {
            let s = size.min(12) as usize;
            let (a, b) = (rng.usize(0, 2), rng.usize(1, 14));
            *rng.pick(&[0usize, 1, s.saturating_sub(1), s, s + 1, 2 * s + a, b])
        }
        None => rng.usize(0, 14),
    };
    let big_ok = batching.is_none() && rng.chance(1, 20);
    let mut payloads: Vec<(usize, u64)> = (0..n).map(|_| (gen_size(rng, big_ok), rng.next())).collect();
    // rarely: a batch whose members are individually fine but together outgrow the frame limit
    if let Some((size, _)) = batching {
        if size >= 3 && size <= 10 && rng.chance(1, 25) {
            for p in payloads.iter_mut() {
                p.0 = *rng.pick(&[150_000usize, 300_000, 400_000]);
            }
        }
    }
    // rarely: an item the encoder must refuse in the middle of ordinary ones, without batching: the
    // refusal must leave no trace, the items accepted after it are owed
    if batching.is_none() && payloads.len() >= 2 && rng.chance(1, 12) {
        let at = rng.usize(0, payloads.len() - 1);
        payloads.insert(at, (*rng.pick(&[1_048_577usize, 1_100_000, 1_048_600]), rng.next()));
        for (i, p) in payloads.iter_mut().enumerate() {
            if i != at {
                p.0 = p.0.min(3_000);
            }
        }
    }
    // rarely, with batching: an item too large for any batch but below the frame limit, while
    // smaller items wait in the batch: refused or not, it must not overtake them
    let mut force_feed = false;
    let mut batching = batching;
    if batching.is_some() && payloads.len() >= 2 && rng.chance(1, 12) {
        let at = rng.usize(1, payloads.len() - 1);
        for p in payloads.iter_mut() {
            p.0 = p.0.clamp(1, 3_000);
        }
        payloads.insert(at, (*rng.pick(&[1_034_000usize, 1_040_000, 1_046_000]), rng.next() / 3 * 3 + 2));
        batching = Some((*rng.pick(&[50u32, 300]), 10_000));
        comp = None;
        force_feed = true;
    }
    // now and then, with batching: the publisher is duplicated while items wait in its batch
    let dup_idle = batching.is_some() && !force_feed && payloads.len() >= 2 && rng.chance(1, 8);
    if dup_idle {
        batching = Some((*rng.pick(&[100u32, 300]), 10_000));
        force_feed = true;
    }
    // rarely: far more small messages than fit into one frame, under a batch size that would take
    // them all (the batch has to be cut by its encoded size, length markers included)
    let mut many_small = false;
    if batching.is_some() && !force_feed && rng.chance(1, 20) {
        batching = Some((*rng.pick(&[1_000u32, 5_000, 20_000]), 10_000));
        let each = *rng.pick(&[60usize, 100, 100, 400, 1_000, 2_500]);
        let total = *rng.pick(&[1_200_000usize, 2_300_000]);
        payloads = (0..total / each).map(|_| (each - rng.usize(0, 7), rng.next())).collect();
        many_small = true;
        // the frame limit applies after compression: mostly leave these uncompressed
        if rng.chance(2, 3) {
            comp = None;
        }
    }
    let pattern = if force_feed { *rng.pick(&[Pattern::FeedThenFlush, Pattern::FeedThenFinish]) } else if many_small { *rng.pick(&[Pattern::SendEach, Pattern::FeedThenFinish]) } else { *rng.pick(&[Pattern::SendEach, Pattern::SendEach, Pattern::FeedThenFlush, Pattern::FeedThenFinish, Pattern::SendAll]) };
    let gaps_ms = if many_small || force_feed || rng.chance(1, 2) { vec![] } else { (0..rng.usize(1, 4)).map(|_| *rng.pick(&[0u64, 0, 1, 50, 150, 2000])).collect() };
    // late readers need the whole exchange to fit into the flow-control windows
    let early_readers = payloads.iter().map(|p| p.0).sum::<usize>() > 400_000 || rng.chance(1, 2);
    let churn = !many_small && rng.chance(1, 4);
    E2eScript { net: mild_net(rng), rt_seed: rng.next(), streams: vec![StreamSpec { codec, comp, batching, n_subs: rng.usize(1, 2), payloads, pattern, gaps_ms, early_readers, churn, dup_idle }] }
}

/// C14: a swarm of transform configurations per run over one pair of connections.
pub fn gen_c14(rng: &mut Rng, thorough: bool) -> E2eScript {
    let k = rng.usize(8, 24);
    let streams = (0..k)
        .map(|_| {
            let (codec, comp) = gen_transform(rng);
            let batching = if rng.chance(1, 3) { Some((*rng.pick(&[1u32, 2, 3, 10]), 100u64)) } else { None };
            let big_ok = thorough && batching.is_none() && rng.chance(1, 30);
            let n = rng.usize(1, 5);
            let payloads: Vec<(usize, u64)> = (0..n).map(|_| (gen_size(rng, big_ok), rng.next())).collect();
            let early_readers = payloads.iter().map(|p| p.0).sum::<usize>() > 400_000 || rng.chance(1, 2);
            StreamSpec { codec, comp, batching, n_subs: 1, payloads, pattern: Pattern::SendEach, gaps_ms: vec![], early_readers, churn: false, dup_idle: false }
        })
        .collect();
    E2eScript { net: NetCfg { seed: rng.next(), loss_ppm: 0, dup_ppm: 0, min_delay_ms: 1, jitter_ms: 0 }, rt_seed: rng.next(), streams }
}

pub fn execute(prop: &str, sc: &E2eScript, opts: &ExecOpts) -> Outcome {
    let mut out = Outcome::default();
    let sc2 = sc.clone();
    let budget = Duration::from_secs(600 + 240 * sc.streams.len() as u64 + sc.streams.iter().map(|s| s.total_bytes() as u64 * (1 + s.n_subs as u64) / 3_000).sum::<u64>());
    let res = run_world(sc.net, sc.rt_seed, budget, move |world: Rc<World>| async move {
        world.start_server(ServerOpts::default())?;
        let backoff = BackoffStrategy::constant().with_max_attempts(1).with_step(Duration::from_millis(200));
        let g1 = world.new_group();
        let g2 = world.new_group();
        let w = world.clone();
        let b = backoff.clone();
        let sub_client = ACTOR.scope(g1, async move { w.client(b).await }).await?;
        let w = world.clone();
        let pub_client = ACTOR.scope(g2, async move { w.client(backoff).await }).await?;
        let mut reports = vec![];
        for (i, spec) in sc2.streams.iter().enumerate() {
            let topic = format!("/e2e/topic{i}");
            reports.push(run_spec(&pub_client, g2, &sub_client, g1, &topic, spec).await);
        }
        Ok::<_, anyhow::Error>(reports)
    });
    let mut th = Hasher64::default();
    match res {
        Err(e) => {
            out.inconclusive = true;
            out.log.push(format!("world failed: {e:#}"));
        }
        Ok(r) => {
            fold(&mut out, prop, &r);
            let lost = r.events.iter().any(|e| e.message.contains("lost connection"));
            if lost {
                out.probe("connection_lost_during_no_loss_family");
                if sc.net.loss_ppm == 0 {
                    // nobody cut anything and no datagram was lost: a stream that loses its
                    // connection here was dropped by the server
                    let who = r.events.iter().find(|e| e.message.contains("lost connection")).and_then(|e| e.actor);
                    out.violate(prop, "stream-dropped-by-server", "pubsub-e2e", format!("a client stream (network group {who:?}) lost its connection on a loss-free network with nothing cut: the server dropped a healthy peer"));
                } else {
                    out.inconclusive = true;
                }
            }
            match &r.value {
                None => {
                    if !lost {
                        out.violate(prop, "scenario-timeout", "pubsub-e2e", format!("the exchange did not finish within {} virtual seconds", budget.as_secs()));
                    }
                }
                Some(Err(e)) => setup_failed(&mut out, prop, "pubsub-e2e", &sc.net, e),
                Some(Ok(reports)) => {
                    for (i, rep) in reports.iter().enumerate() {
                        let spec = &sc.streams[i];
                        match rep {
                            Err(e) => {
                                if !lost {
                                    out.violate(prop, "stream-setup-failed", "pubsub-e2e", format!("stream {i} ({:?}/{:?}): {e:#}", spec.codec, spec.comp));
                                }
                            }
                            Ok(rep) => {
                                th.word(rep.sent as u64);
                                for n in &rep.received {
                                    th.word(*n as u64);
                                }
                                th.word(rep.refused as u64);
                                if !lost {
                                    for (tag, sig, detail) in &rep.mismatches {
                                        let sig = format!("{}{}", if spec.batching.is_some() { "batched:" } else { "unbatched:" }, sig);
                                        out.violate(prop, tag, &sig, detail.clone());
                                    }
                                }
                                if rep.sent >= 2 {
                                    out.nontrivial = true;
                                }
                                if spec.batching.is_some() {
                                    out.probe("batched_streams");
                                    if rep.batches_by_size {
                                        out.probe("size_triggered_batch");
                                    }
                                    if rep.partial_final_batch {
                                        out.probe("partial_final_batch");
                                    }
                                    if spec.gaps_ms.iter().any(|g| *g > spec.batching.unwrap().1) {
                                        out.probe("interval_triggered_batch_possible");
                                    }
                                }
                                if let Some((k, _)) = spec.comp {
                                    out.probe(&format!("comp_{k:?}").to_lowercase());
                                }
                                out.probe(&format!("codec_{:?}", spec.codec).to_lowercase());
                                out.probe_n("frames_refused_by_encoder", rep.refused as u64);
                                out.steps += rep.sent as u64;
                                if opts.want_log {
                                    out.log.push(format!("stream {i}: sent={} received={:?} notes={:?}", rep.sent, rep.received, rep.notes));
                                }
                            }
                        }
                    }
                }
            }
            th.word(r.net_trace);
            if opts.want_log {
                out.log.push(format!("virtual_ms={} net={:?}", r.virtual_ms, r.net));
                if std::env::var("DST_EVENTS").is_ok() {
                    for e in r.events.iter().take(400) {
                        out.log.push(format!("event @{} actor={:?} {} {:?}", e.at_ms, e.actor, e.message, e.fields));
                    }
                }
            }
        }
    }
    out.trace_hash = th.finish();
    out.full_hash = th.finish();
    out
}

pub struct E2eFamily {
    pub name: &'static str,
    pub swarm: bool,
}
pub static E2E_C03: E2eFamily = E2eFamily { name: "pubsub-e2e", swarm: false };
pub static E2E_C14: E2eFamily = E2eFamily { name: "transform-swarm", swarm: true };

impl Family for E2eFamily {
    fn name(&self) -> &'static str {
        self.name
    }
    fn engine(&self) -> &'static str {
        "N"
    }
    fn generate(&self, _p: &str, tier: Tier, _i: u64, _n: u64, rng: &mut Rng) -> Value {
        let sc = if self.swarm { gen_c14(rng, tier == Tier::Thorough) } else { gen_c03(rng) };
        serde_json::to_value(sc).unwrap()
    }
    fn execute(&self, property: &str, body: &Value, opts: &ExecOpts) -> Outcome {
        match serde_json::from_value::<E2eScript>(body.clone()) {
            Ok(sc) => execute(property, &sc, opts),
            Err(e) => {
                let mut o = Outcome::default();
                o.inconclusive = true;
                o.log.push(format!("bad script: {e}"));
                o
            }
        }
    }
    fn shrink(&self, body: &Value) -> Vec<Value> {
        let Ok(sc) = serde_json::from_value::<E2eScript>(body.clone()) else { return vec![] };
        let mut out = vec![];
        // fewer streams
        if sc.streams.len() > 1 {
            for i in 0..sc.streams.len() {
                let mut c = sc.clone();
                c.streams = vec![sc.streams[i].clone()];
                out.push(c);
            }
        }
        // calmer network
        if sc.net.loss_ppm > 0 || sc.net.dup_ppm > 0 || sc.net.jitter_ms > 0 {
            let mut c = sc.clone();
            c.net.loss_ppm = 0;
            c.net.dup_ppm = 0;
            c.net.jitter_ms = 0;
            out.push(c);
        }
        for (si, st) in sc.streams.iter().enumerate() {
            if st.comp.is_some() {
                let mut c = sc.clone();
                c.streams[si].comp = None;
                out.push(c);
            }
            if st.codec != CodecKind::String {
                let mut c = sc.clone();
                c.streams[si].codec = CodecKind::String;
                out.push(c);
            }
            if st.batching.is_some() {
                let mut c = sc.clone();
                c.streams[si].batching = None;
                out.push(c);
            }
            if st.n_subs > 1 {
                let mut c = sc.clone();
                c.streams[si].n_subs = 1;
                out.push(c);
            }
            if !st.gaps_ms.is_empty() {
                let mut c = sc.clone();
                c.streams[si].gaps_ms = vec![];
                out.push(c);
            }
            if st.pattern != Pattern::SendEach {
                let mut c = sc.clone();
                c.streams[si].pattern = Pattern::SendEach;
                out.push(c);
            }
            // fewer payloads: halves and quarters first; single removals and single size
            // reductions only for short lists (the candidate list is materialised, and a script
            // of the many-small class holds thousands of payloads)
            let n = st.payloads.len();
            if n > 8 {
                for (a, b) in [(0, n / 2), (n / 2, n), (0, n / 4), (n / 4, n / 2), (n / 2, 3 * n / 4), (3 * n / 4, n)] {
                    let mut c = sc.clone();
                    c.streams[si].payloads.drain(a..b);
                    out.push(c);
                }
            }
            if n <= 64 {
                for i in (0..n).rev() {
                    let mut c = sc.clone();
                    c.streams[si].payloads.remove(i);
                    out.push(c);
                }
                for (i, (s, f)) in st.payloads.iter().enumerate() {
                    if *s > 4 {
                        let mut c = sc.clone();
                        c.streams[si].payloads[i] = (4, *f);
                        out.push(c);
                    }
                }
            } else if st.payloads.iter().any(|p| p.0 > 4) {
                let mut c = sc.clone();
                for p in c.streams[si].payloads.iter_mut() {
                    p.0 = p.0.min(4);
                }
                out.push(c);
            }
        }
        out.into_iter().map(|s| serde_json::to_value(s).unwrap()).collect()
    }
    fn watchdog_ms(&self) -> u64 {
        120_000
    }
}
