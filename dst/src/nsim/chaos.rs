//! Chaos — the whole system under a seeded mix of faults, judged by *safety invariants that hold
//! whatever goes wrong*, plus liveness once the faults have stopped:
//!
//! * C01: a subscriber never sees a message of another topic, never sees a message twice, and sees
//!   the messages of one publisher in the order they were sent (pairs sent well away from that
//!   publisher's own outages);
//! * C04: a `request()` that returns Ok returns the reply to its own request;
//! * C12: after the last fault everything that did not exhaust its retry budget works again.
//!
//! Faults: H1 connection close of any client, partition of any client for a while, server
//! restart (nothing survives), all interleaved with continuous pub/sub and request/reply traffic
//! on one or two topics, over a mildly lossy network. Messages sent during outages are not owed.

use super::e2e::mild_net;
use super::net::NetCfg;
use super::sim::*;
use crate::core::*;
use crate::rng::{Hasher64, Rng};
use anyhow::Result as AResult;
use futures::{SinkExt, StreamExt};
use selium::keep_alive::BackoffStrategy;
use selium::prelude::*;
use selium::std::codecs::StringCodec;
use serde::{Deserialize, Serialize};
use serde_json::Value;
use std::cell::RefCell;
use std::rc::Rc;
use std::time::Duration;

#[derive(Clone, Copy, Debug, Serialize, Deserialize, PartialEq)]
#[serde(rename_all = "snake_case")]
pub enum Who {
    Pub(usize),
    Sub(usize),
    Requestor,
    Replier,
}

#[derive(Clone, Copy, Debug, Serialize, Deserialize, PartialEq)]
#[serde(rename_all = "snake_case")]
pub enum ChaosFault {
    Close(Who),
    Partition { who: Who, ms: u64 },
    RestartServer { down_ms: u64 },
}

#[derive(Clone, Debug, Serialize, Deserialize)]
pub struct ChaosScript {
    pub net: NetCfg,
    pub rt_seed: u64,
    pub n_topics: usize,
    pub pubs_per_topic: usize,
    pub subs_per_topic: usize,
    pub reqrep: bool,
    pub period_ms: u64,
    pub duration_ms: u64,
    /// (at_ms after traffic start, fault)
    pub faults: Vec<(u64, ChaosFault)>,
}

impl ChaosScript {
    fn n_pubs(&self) -> usize {
        self.n_topics * self.pubs_per_topic
    }
    fn n_subs(&self) -> usize {
        self.n_topics * self.subs_per_topic
    }
}

pub fn gen_script(rng: &mut Rng) -> ChaosScript {
    let n_topics = rng.usize(1, 2);
    let pubs_per_topic = rng.usize(1, 2);
    let subs_per_topic = rng.usize(1, 2);
    let reqrep = rng.chance(2, 3);
    let duration_ms = *rng.pick(&[3_000u64, 6_000, 10_000]);
    let n_faults = rng.usize(1, 6);
    let (np, ns) = (n_topics * pubs_per_topic, n_topics * subs_per_topic);
    let mut faults: Vec<(u64, ChaosFault)> = (0..n_faults)
        .map(|_| {
            let who = match rng.below(if reqrep { 4 } else { 2 }) {
                0 => Who::Pub(rng.usize(0, np - 1)),
                1 => Who::Sub(rng.usize(0, ns - 1)),
                2 => Who::Requestor,
                _ => Who::Replier,
            };
            let f = match rng.below(5) {
                0 | 1 => ChaosFault::Close(who),
                2 | 3 => ChaosFault::Partition { who, ms: *rng.pick(&[100u64, 600, 1_500, 3_000]) },
                _ => ChaosFault::RestartServer { down_ms: *rng.pick(&[50u64, 500, 2_000]) },
            };
            (rng.range(0, duration_ms), f)
        })
        .collect();
    faults.sort_by_key(|f| f.0);
    ChaosScript { net: mild_net(rng), rt_seed: rng.next(), n_topics, pubs_per_topic, subs_per_topic, reqrep, period_ms: *rng.pick(&[20u64, 60, 150]), duration_ms, faults }
}

#[derive(Debug, Default, Clone)]
pub struct ChaosReport {
    /// per publisher: (index, sent_at_ms) of the sends that returned Ok
    pub sent: Vec<Vec<(u64, u64)>>,
    /// per publisher: why it stopped, if it did
    pub pub_final: Vec<Option<String>>,
    /// per subscriber: what it yielded, in order
    pub received: Vec<Vec<String>>,
    pub sub_final: Vec<Option<String>>,
    /// (index, outcome)
    pub calls: Vec<(u64, Result<String, String>)>,
    pub req_final: Option<String>,
    pub rep_final: Option<String>,
    /// per publisher: outage windows (from, to) in ms
    pub pub_windows: Vec<Vec<(u64, u64)>>,
    /// final phase: per subscriber, which publishers' FINAL markers arrived
    pub finals_seen: Vec<Vec<usize>>,
    pub final_call_ok: Option<bool>,
    pub notes: Vec<String>,
}

const SERVER_IDLE_MS: u32 = 6_000;
const KEEP_ALIVE_MS: u64 = 1_500;

async fn scenario(world: Rc<World>, sc: ChaosScript) -> AResult<ChaosReport> {
    let mut rep = ChaosReport::default();
    let opts = ServerOpts { idle_timeout_ms: SERVER_IDLE_MS, ..Default::default() };
    world.start_server(opts)?;
    // generous budget: 60 attempts 250 ms apart
    let backoff = || BackoffStrategy::constant().with_step(Duration::from_millis(250)).with_max_attempts(60);
    let mk = |g: u32| {
        let w = world.clone();
        let b = backoff();
        ACTOR.scope(g, async move {
            let certs = w.certs.clone();
            w.client_with(&certs, b, KEEP_ALIVE_MS).await
        })
    };
    let (np, ns) = (sc.n_pubs(), sc.n_subs());
    let stop = Rc::new(RefCell::new(false));
    let final_phase = Rc::new(RefCell::new(false));
    // ---- subscribers ----
    let mut sub_groups = vec![];
    let mut sub_clients = vec![];
    let received: Vec<Rc<RefCell<Vec<String>>>> = (0..ns).map(|_| Rc::new(RefCell::new(vec![]))).collect();
    let sub_final: Vec<Rc<RefCell<Option<String>>>> = (0..ns).map(|_| Rc::new(RefCell::new(None))).collect();
    for s in 0..ns {
        let g = world.new_group();
        let c = mk(g).await?;
        let t = s / sc.subs_per_topic;
        let mut sub = ACTOR.scope(g, c.subscriber(&format!("/chaos/topic{t}")).with_decoder(StringCodec).open()).await?;
        let (r, f) = (received[s].clone(), sub_final[s].clone());
        tokio::task::spawn_local(ACTOR.scope(g, async move {
            loop {
                match sub.next().await {
                    Some(Ok(m)) => r.borrow_mut().push(m),
                    Some(Err(e)) => {
                        *f.borrow_mut() = Some(e.to_string());
                        break;
                    }
                    None => {
                        *f.borrow_mut() = Some("stream ended".into());
                        break;
                    }
                }
            }
        }));
        sub_groups.push(g);
        sub_clients.push(c);
    }
    // ---- request/reply ----
    let (gq, gr) = (world.new_group(), world.new_group());
    let calls: Rc<RefCell<Vec<(u64, Result<String, String>)>>> = Rc::new(RefCell::new(vec![]));
    let req_final: Rc<RefCell<Option<String>>> = Rc::new(RefCell::new(None));
    let rep_final: Rc<RefCell<Option<String>>> = Rc::new(RefCell::new(None));
    let final_call: Rc<RefCell<Option<bool>>> = Rc::new(RefCell::new(None));
    let mut rr_clients = None;
    if sc.reqrep {
        let cr = mk(gr).await?;
        let mut replier = ACTOR.scope(gr, cr.replier("/chaos/rpc").with_request_decoder(StringCodec).with_reply_encoder(StringCodec).with_handler(|q: String| async move { Ok::<_, anyhow::Error>(format!("re:{q}")) }).open()).await?;
        let f = rep_final.clone();
        tokio::task::spawn_local(ACTOR.scope(gr, async move {
            let r = replier.listen().await;
            *f.borrow_mut() = Some(match r {
                Ok(()) => "listen returned Ok".into(),
                Err(e) => e.to_string(),
            });
        }));
        tokio::time::sleep(Duration::from_millis(300)).await;
        let cq = mk(gq).await?;
        let mut q = ACTOR.scope(gq, cq.requestor("/chaos/rpc").with_request_encoder(StringCodec).with_reply_decoder(StringCodec).with_request_timeout(Duration::from_millis(1_000))?.open()).await?;
        let (cl, st, fp, f, fc) = (calls.clone(), stop.clone(), final_phase.clone(), req_final.clone(), final_call.clone());
        let period = sc.period_ms;
        tokio::task::spawn_local(ACTOR.scope(gq, async move {
            let mut i = 0u64;
            loop {
                if *st.borrow() {
                    break;
                }
                let in_final = *fp.borrow();
                let r = q.request(format!("Q{i}")).await.map_err(|e| e.to_string());
                if let Err(e) = &r {
                    if e.contains("Too many") || e.contains("Failed to open stream") {
                        *f.borrow_mut() = Some(e.clone());
                        break;
                    }
                }
                if in_final && r.is_ok() {
                    *fc.borrow_mut() = Some(true);
                }
                cl.borrow_mut().push((i, r));
                i += 1;
                tokio::time::sleep(Duration::from_millis(period.max(50))).await;
            }
        }));
        rr_clients = Some((cq, cr));
    }
    tokio::time::sleep(Duration::from_millis(800)).await;
    // ---- publishers ----
    let mut pub_groups = vec![];
    let mut pub_clients = vec![];
    let sent: Vec<Rc<RefCell<Vec<(u64, u64)>>>> = (0..np).map(|_| Rc::new(RefCell::new(vec![]))).collect();
    let pub_final: Vec<Rc<RefCell<Option<String>>>> = (0..np).map(|_| Rc::new(RefCell::new(None))).collect();
    let t0 = virtual_ms() + 200;
    for p in 0..np {
        let g = world.new_group();
        let c = mk(g).await?;
        let t = p / sc.pubs_per_topic;
        let mut publisher = ACTOR.scope(g, c.publisher(&format!("/chaos/topic{t}")).with_encoder(StringCodec).open()).await?;
        let (s, f, st, fp) = (sent[p].clone(), pub_final[p].clone(), stop.clone(), final_phase.clone());
        let period = sc.period_ms;
        tokio::task::spawn_local(ACTOR.scope(g, async move {
            let mut i = 0u64;
            loop {
                if *st.borrow() {
                    break;
                }
                let m = if *fp.borrow() { format!("T{t}:P{p}:FINAL") } else { format!("T{t}:P{p}:{i}") };
                let at = virtual_ms();
                match publisher.send(m).await {
                    Ok(()) => {
                        if !*fp.borrow() {
                            s.borrow_mut().push((i, at));
                        }
                    }
                    Err(e) => {
                        *f.borrow_mut() = Some(e.to_string());
                        break;
                    }
                }
                i += 1;
                tokio::time::sleep(Duration::from_millis(if *fp.borrow() { 400 } else { period })).await;
            }
        }));
        pub_groups.push(g);
        pub_clients.push(c);
    }
    // ---- faults ----
    let mut pub_windows: Vec<Vec<(u64, u64)>> = vec![vec![]; np];
    let group_of = |w: Who| -> u32 {
        match w {
            Who::Pub(i) => pub_groups[i.min(np - 1)],
            Who::Sub(i) => sub_groups[i.min(ns - 1)],
            Who::Requestor => gq,
            Who::Replier => gr,
        }
    };
    for (at, fault) in &sc.faults {
        let target = t0 + at;
        if virtual_ms() < target {
            tokio::time::sleep(Duration::from_millis(target - virtual_ms())).await;
        }
        let now = virtual_ms();
        match *fault {
            ChaosFault::Close(who) => {
                match who {
                    Who::Pub(i) => {
                        pub_clients[i.min(np - 1)].verif_close_connection().await;
                        pub_windows[i.min(np - 1)].push((now, now));
                    }
                    Who::Sub(i) => sub_clients[i.min(ns - 1)].verif_close_connection().await,
                    Who::Requestor => {
                        if let Some((cq, _)) = &rr_clients {
                            cq.verif_close_connection().await
                        }
                    }
                    Who::Replier => {
                        if let Some((_, cr)) = &rr_clients {
                            cr.verif_close_connection().await
                        }
                    }
                }
            }
            ChaosFault::Partition { who, ms } => {
                let g = group_of(who);
                world.net.set_partition(g, true);
                if let Who::Pub(i) = who {
                    pub_windows[i.min(np - 1)].push((now, now + ms));
                }
                let net = world.net.clone();
                tokio::task::spawn_local(async move {
                    tokio::time::sleep(Duration::from_millis(ms)).await;
                    net.set_partition(g, false);
                });
            }
            ChaosFault::RestartServer { down_ms } => {
                world.stop_server();
                for w in pub_windows.iter_mut() {
                    w.push((now, now + down_ms));
                }
                tokio::time::sleep(Duration::from_millis(down_ms)).await;
                world.start_server(opts)?;
            }
        }
    }
    let end = t0 + sc.duration_ms;
    if virtual_ms() < end {
        tokio::time::sleep(Duration::from_millis(end - virtual_ms())).await;
    }
    // ---- faults are over: heal, let everything recover, then the final phase ----
    world.net.heal_all();
    tokio::time::sleep(Duration::from_millis(SERVER_IDLE_MS as u64 + 8_000)).await;
    *final_phase.borrow_mut() = true;
    let deadline = virtual_ms() + 25_000;
    let finals = |received: &Vec<Rc<RefCell<Vec<String>>>>| -> Vec<Vec<usize>> {
        received.iter().map(|r| (0..np).filter(|p| r.borrow().iter().any(|m| m.ends_with(&format!(":P{p}:FINAL")))).collect()).collect()
    };
    loop {
        let f = finals(&received);
        let all = (0..ns).all(|s| {
            let t = s / sc.subs_per_topic;
            (0..np).filter(|p| p / sc.pubs_per_topic == t && pub_final[*p].borrow().is_none()).all(|p| f[s].contains(&p)) || sub_final[s].borrow().is_some()
        });
        let call_ok = !sc.reqrep || final_call.borrow().is_some() || req_final.borrow().is_some() || rep_final.borrow().is_some();
        if (all && call_ok) || virtual_ms() >= deadline {
            break;
        }
        tokio::time::sleep(Duration::from_millis(200)).await;
    }
    *stop.borrow_mut() = true;
    tokio::time::sleep(Duration::from_millis(300)).await;
    rep.sent = sent.iter().map(|s| s.borrow().clone()).collect();
    rep.pub_final = pub_final.iter().map(|f| f.borrow().clone()).collect();
    rep.received = received.iter().map(|r| r.borrow().clone()).collect();
    rep.sub_final = sub_final.iter().map(|f| f.borrow().clone()).collect();
    rep.calls = calls.borrow().clone();
    rep.req_final = req_final.borrow().clone();
    rep.rep_final = rep_final.borrow().clone();
    rep.pub_windows = pub_windows;
    rep.finals_seen = finals(&received);
    rep.final_call_ok = *final_call.borrow();
    Ok(rep)
}

pub fn execute(prop: &str, sc: &ChaosScript, opts: &ExecOpts) -> Outcome {
    let mut out = Outcome::default();
    let sc2 = sc.clone();
    let res = run_world(sc.net, sc.rt_seed, Duration::from_secs(3600), move |world| scenario(world, sc2));
    let mut th = Hasher64::default();
    match res {
        Err(e) => {
            out.inconclusive = true;
            out.log.push(format!("world failed: {e:#}"));
        }
        Ok(r) => {
            fold(&mut out, prop, &r);
            match &r.value {
                None => out.violate(prop, "scenario-timeout", "chaos", "the scenario did not finish within 3600 virtual seconds".into()),
                Some(Err(e)) => {
                    out.inconclusive = true;
                    out.log.push(format!("setup error: {e:#}"));
                }
                Some(Ok(rep)) => {
                    for (_, f) in &sc.faults {
                        out.fault(match f {
                            ChaosFault::Close(_) => "connection_closed_by_hook",
                            ChaosFault::Partition { .. } => "client_partitioned",
                            ChaosFault::RestartServer { .. } => "server_restart",
                        });
                    }
                    let np = sc.n_pubs();
                    // each property judges its own clause of the same run
                    let (judge_pubsub, judge_replies, judge_liveness) = (prop == "C01", prop == "C04", prop == "C12");
                    // ---------- safety: every subscriber, every publisher ----------
                    for (s, got) in rep.received.iter().enumerate().filter(|_| judge_pubsub) {
                        th.word(got.len() as u64);
                        let t = s / sc.subs_per_topic;
                        let mut per_pub: Vec<Vec<u64>> = vec![vec![]; np];
                        for m in got {
                            let parts: Vec<&str> = m.split(':').collect();
                            let ok = parts.len() == 3 && parts[0] == format!("T{t}") && parts[1].starts_with('P');
                            let p = if ok { parts[1][1..].parse::<usize>().ok() } else { None };
                            match p {
                                Some(p) if p < np && p / sc.pubs_per_topic == t => {
                                    if let Ok(i) = parts[2].parse::<u64>() {
                                        per_pub[p].push(i);
                                    }
                                }
                                _ => {
                                    out.violate(prop, "foreign-message", "chaos:subscriber", format!("subscriber {s} of topic {t} yielded {:?}, which no publisher of that topic sent", m.chars().take(40).collect::<String>()));
                                }
                            }
                        }
                        for (p, idx) in per_pub.iter().enumerate() {
                            let mut seen = std::collections::HashSet::new();
                            for i in idx {
                                if !seen.insert(*i) {
                                    out.violate(prop, "message-duplicated", "chaos:subscriber", format!("subscriber {s} yielded message {i} of publisher {p} twice (faults {:?})", sc.faults));
                                    break;
                                }
                                if !rep.sent[p].iter().any(|(k, _)| k == i) && rep.pub_final[p].is_none() {
                                    // an index whose send() never returned Ok may still have gone out; only indices never produced at all are foreign
                                    let max = rep.sent[p].iter().map(|x| x.0).max().unwrap_or(0);
                                    if *i > max + 2 {
                                        out.violate(prop, "foreign-message", "chaos:subscriber", format!("subscriber {s} yielded index {i} of publisher {p}, which sent at most {max}"));
                                        break;
                                    }
                                }
                            }
                            // order: pairs sent well away from this publisher's own outages
                            let calm = |i: &u64| -> bool {
                                match rep.sent[p].iter().find(|(k, _)| k == i) {
                                    Some((_, at)) => !rep.pub_windows[p].iter().any(|(a, b)| *at + 3_000 >= *a && *at <= *b + 12_000),
                                    None => false,
                                }
                            };
                            let calm_seq: Vec<u64> = idx.iter().filter(|i| calm(i)).cloned().collect();
                            if let Some(w) = calm_seq.windows(2).find(|w| w[1] < w[0]) {
                                out.violate(prop, "messages-reordered", "chaos:subscriber", format!("subscriber {s} yielded message {} of publisher {p} after message {} (both sent well away from any outage of that publisher; faults {:?})", w[1], w[0], sc.faults));
                            }
                        }
                    }
                    // ---------- safety: replies ----------
                    for (i, r) in rep.calls.iter().filter(|_| judge_replies) {
                        if let Ok(v) = r {
                            if *v != format!("re:Q{i}") {
                                out.violate(prop, "reply-misattributed", "chaos:requestor", format!("call Q{i} returned {:?}", v.chars().take(40).collect::<String>()));
                                break;
                            }
                        }
                    }
                    // ---------- liveness after the last fault ----------
                    let lossless = sc.net.loss_ppm == 0 && judge_liveness;
                    for (s, seen) in rep.finals_seen.iter().enumerate() {
                        if rep.sub_final[s].is_some() {
                            continue;
                        }
                        let t = s / sc.subs_per_topic;
                        for p in (0..np).filter(|p| p / sc.pubs_per_topic == t) {
                            if rep.pub_final[p].is_none() && !seen.contains(&p) && lossless {
                                out.violate(prop, "no-delivery-after-faults-stopped", "chaos:pubsub", format!("the faults stopped, both ends kept their streams (no too-many-retries), yet nothing that publisher {p} sent in the final 25 virtual seconds reached subscriber {s} (faults {:?})", sc.faults));
                            }
                        }
                    }
                    for (who, f) in rep.pub_final.iter().map(|f| ("publisher", f)).chain(rep.sub_final.iter().map(|f| ("subscriber", f))).chain([("requestor", &rep.req_final), ("replier", &rep.rep_final)]) {
                        if let Some(e) = f {
                            // 60 attempts 250 ms apart outlast every scripted outage
                            if lossless && !e.contains("listen returned") {
                                out.violate(prop, "stream-gave-up", &format!("chaos:{who}"), format!("a {who} stream ended with {e:?} although every outage was shorter than its retry budget (faults {:?})", sc.faults));
                            }
                        }
                    }
                    if sc.reqrep && rep.final_call_ok != Some(true) && rep.req_final.is_none() && rep.rep_final.is_none() && lossless {
                        out.violate(prop, "no-answer-after-faults-stopped", "chaos:reqrep", format!("the faults stopped, requestor and replier kept their streams, yet no call was answered in the final 25 virtual seconds (faults {:?})", sc.faults));
                    }
                    out.nontrivial = !sc.faults.is_empty();
                    out.steps = rep.received.iter().map(|r| r.len() as u64).sum::<u64>() + rep.calls.len() as u64;
                    out.probe_n("messages_checked_under_chaos", rep.received.iter().map(|r| r.len() as u64).sum());
                    out.probe_n("calls_checked_under_chaos", rep.calls.len() as u64);
                    if opts.want_log {
                        out.log.push(format!("faults {:?}", sc.faults));
                        out.log.push(format!("sent {:?}", rep.sent.iter().map(|s| s.len()).collect::<Vec<_>>()));
                        out.log.push(format!("received {:?}", rep.received.iter().map(|s| s.len()).collect::<Vec<_>>()));
                        out.log.push(format!("finals {:?} final_call {:?}", rep.finals_seen, rep.final_call_ok));
                        out.log.push(format!("pub_final {:?} sub_final {:?} req {:?} rep {:?}", rep.pub_final, rep.sub_final, rep.req_final, rep.rep_final));
                        out.log.push(format!("calls ok {} err {}", rep.calls.iter().filter(|c| c.1.is_ok()).count(), rep.calls.iter().filter(|c| c.1.is_err()).count()));
                    }
                }
            }
            th.word(r.net_trace);
        }
    }
    out.trace_hash = th.finish();
    out.full_hash = th.finish();
    out
}

pub struct Chaos;
pub static CHAOS: Chaos = Chaos;

impl Family for Chaos {
    fn name(&self) -> &'static str {
        "chaos"
    }
    fn engine(&self) -> &'static str {
        "N"
    }
    fn generate(&self, _p: &str, _t: Tier, _i: u64, _n: u64, rng: &mut Rng) -> Value {
        serde_json::to_value(gen_script(rng)).unwrap()
    }
    fn execute(&self, property: &str, body: &Value, opts: &ExecOpts) -> Outcome {
        match serde_json::from_value::<ChaosScript>(body.clone()) {
            Ok(sc) => execute(property, &sc, opts),
            Err(e) => {
                let mut o = Outcome::default();
                o.inconclusive = true;
                o.log.push(format!("bad script: {e}"));
                o
            }
        }
    }
    fn shrink(&self, body: &Value) -> Vec<Value> {
        let Ok(sc) = serde_json::from_value::<ChaosScript>(body.clone()) else { return vec![] };
        let mut out = vec![];
        for i in 0..sc.faults.len() {
            let mut c = sc.clone();
            c.faults.remove(i);
            out.push(c);
        }
        if sc.net.loss_ppm > 0 || sc.net.dup_ppm > 0 || sc.net.jitter_ms > 0 {
            let mut c = sc.clone();
            c.net.loss_ppm = 0;
            c.net.dup_ppm = 0;
            c.net.jitter_ms = 0;
            out.push(c);
        }
        if sc.reqrep && !sc.faults.iter().any(|f| matches!(f.1, ChaosFault::Close(Who::Requestor | Who::Replier) | ChaosFault::Partition { who: Who::Requestor | Who::Replier, .. })) {
            let mut c = sc.clone();
            c.reqrep = false;
            out.push(c);
        }
        if sc.duration_ms > 3_000 {
            let mut c = sc.clone();
            c.duration_ms = 3_000;
            for f in c.faults.iter_mut() {
                f.0 = f.0.min(2_900);
            }
            out.push(c);
        }
        out.into_iter().map(|s| serde_json::to_value(s).unwrap()).collect()
    }
    fn watchdog_ms(&self) -> u64 {
        90_000
    }
}
