//! C15 — mutual TLS: every pairing of client identity {trusted CA, other CA, self-signed, none} and
//! server identity {trusted CA, other CA}, each under seeded network schedules, over real rustls.

use super::net::NetCfg;
use super::sim::*;
use crate::core::*;
use crate::rng::{Hasher64, Rng};
use anyhow::Result as AResult;
use futures::{SinkExt, StreamExt};
use rustls::{Certificate, PrivateKey, RootCertStore};
use selium::keep_alive::BackoffStrategy;
use selium::prelude::*;
use selium::std::codecs::StringCodec;
use selium_protocol::{Frame, PublisherPayload, TopicName};
use serde::{Deserialize, Serialize};
use serde_json::Value;
use std::rc::Rc;
use std::time::Duration;

#[derive(Clone, Copy, Debug, Serialize, Deserialize, PartialEq)]
#[serde(rename_all = "snake_case")]
pub enum ClientId {
    Trusted,
    OtherCa,
    SelfSigned,
    None,
}

#[derive(Clone, Copy, Debug, Serialize, Deserialize, PartialEq)]
#[serde(rename_all = "snake_case")]
pub enum ServerId {
    Trusted,
    OtherCa,
    /// certificate from the trusted CA, handed to the server as a PEM "full chain" file that also
    /// carries the *other* CA's certificate: what the server presents must not widen whom it trusts
    TrustedFullChain,
    /// identity issued by the *other* CA, handed over as a full-chain file (leaf + that CA), while
    /// client certificates are verified against the trusted CA; the client under test trusts the
    /// other CA here, so that only the server's verification of the client decides
    OtherCaFullChain,
}

#[derive(Clone, Debug, Serialize, Deserialize)]
pub struct TlsScript {
    pub net: NetCfg,
    pub rt_seed: u64,
    pub client: ClientId,
    pub server: ServerId,
    /// the refused peer is a raw quinn client (true) or the selium library client (false)
    pub raw_client: bool,
    /// the trusted certificate set was renewed in place (generator run again over an older set)
    #[serde(default)]
    pub renewed_in_place: bool,
    /// the renewal happens after a first client was already built from the same file paths in
    /// this process (and the server is restarted with the new set)
    #[serde(default)]
    pub renewed_after_first_client: bool,
}

pub fn pairings() -> Vec<(ClientId, ServerId)> {
    let mut v = vec![];
    for c in [ClientId::Trusted, ClientId::OtherCa, ClientId::SelfSigned, ClientId::None] {
        for s in [ServerId::Trusted, ServerId::OtherCa, ServerId::TrustedFullChain, ServerId::OtherCaFullChain] {
            v.push((c, s));
        }
    }
    v
}

#[derive(Debug, Default)]
pub struct TlsReport {
    pub connect: Option<Result<(), String>>,
    pub open: Option<Result<(), String>>,
    pub send: Option<Result<(), String>>,
    pub subscriber_got: Vec<String>,
    pub subscriber_started: bool,
    /// the server could not load the certificate files it was given
    pub server_start_err: Option<String>,
    /// the trusted watcher (generator-issued identity, same CA as the server) could not connect or subscribe
    pub watcher_failed: Option<String>,
    pub notes: Vec<String>,
}

async fn scenario(world: Rc<World>, sc: TlsScript) -> AResult<TlsReport> {
    let mut rep = TlsReport::default();
    let a = world.certs.clone();
    if sc.renewed_in_place && sc.renewed_after_first_client {
        // the old set in use first: a server on it and a client built from the same paths
        world.start_server_with(&a, ServerOpts::default())?;
        let g = world.new_group();
        let w = world.clone();
        let a2 = a.clone();
        let first = ACTOR.scope(g, async move { w.client_with(&a2, BackoffStrategy::constant().with_max_attempts(0), 5_000).await }).await;
        if first.is_err() {
            rep.notes.push("the client built before the renewal could not connect".into());
        }
        drop(first);
        world.stop_server();
        tokio::time::sleep(Duration::from_millis(200)).await;
    }
    if sc.renewed_in_place {
        regenerate_certs_in_place(&a)?;
    }
    let b = generate_certs("other")?;
    // server identity
    let server_dir = match sc.server {
        ServerId::Trusted => a.clone(),
        ServerId::OtherCa => {
            // certificate and key from the other CA; client certificates are still verified against CA A
            let mixed = fresh_scratch("mixed-server");
            std::fs::create_dir_all(&mixed)?;
            std::fs::copy(b.server.join("localhost.der"), mixed.join("localhost.der"))?;
            std::fs::copy(b.server.join("localhost.key.der"), mixed.join("localhost.key.der"))?;
            std::fs::copy(a.server.join("ca.der"), mixed.join("ca.der"))?;
            CertDir { client: a.client.clone(), server: mixed }
        }
        ServerId::TrustedFullChain | ServerId::OtherCaFullChain => a.clone(),
    };
    if sc.server == ServerId::OtherCaFullChain {
        let chain = fresh_scratch("fullchain-other.pem");
        std::fs::create_dir_all(scratch_root())?;
        std::fs::write(&chain, pem_chain(&[read_der(&b.server.join("localhost.der"))?, read_der(&b.server.join("ca.der"))?]))?;
        if let Err(e) = world.start_server_files(&a.server.join("ca.der"), &chain, &b.server.join("localhost.key.der"), ServerOpts::default()) {
            rep.server_start_err = Some(format!("{e:#}"));
            return Ok(rep);
        }
    } else if sc.server == ServerId::TrustedFullChain {
        let chain = fresh_scratch("fullchain.pem");
        std::fs::create_dir_all(scratch_root())?;
        std::fs::write(&chain, pem_chain(&[read_der(&a.server.join("localhost.der"))?, read_der(&b.server.join("ca.der"))?]))?;
        if let Err(e) = world.start_server_files(&a.server.join("ca.der"), &chain, &a.server.join("localhost.key.der"), ServerOpts::default()) {
            rep.server_start_err = Some(format!("{e:#}"));
            return Ok(rep);
        }
    } else if let Err(e) = world.start_server_with(&server_dir, ServerOpts::default()) {
        rep.server_start_err = Some(format!("{e:#}"));
        return Ok(rep);
    }
    let topic = "/secure/topic";
    let backoff = BackoffStrategy::constant().with_max_attempts(0);
    // a trusted subscriber watches the topic (only possible when the server itself is trusted)
    let mut watcher = None;
    if sc.server == ServerId::Trusted || sc.server == ServerId::TrustedFullChain {
        let g = world.new_group();
        let w = world.clone();
        let bo = backoff.clone();
        let a2 = a.clone();
        match ACTOR.scope(g, async move { w.client_with(&a2, bo, 5_000).await }).await {
            Ok(c) => match ACTOR.scope(g, c.subscriber(topic).with_decoder(StringCodec).open()).await {
                Ok(s) => {
                    rep.subscriber_started = true;
                    watcher = Some((g, c, s));
                }
                Err(e) => rep.watcher_failed = Some(format!("could not open a subscriber: {e}")),
            },
            Err(e) => rep.watcher_failed = Some(format!("could not connect: {e:#}")),
        }
        tokio::time::sleep(Duration::from_millis(500)).await;
    }
    // identity files of the client under test (it always trusts CA A)
    let client_dir = fresh_scratch("client-under-test");
    std::fs::create_dir_all(&client_dir)?;
    let trust = if sc.server == ServerId::OtherCaFullChain { &b } else { &a };
    std::fs::copy(trust.client.join("ca.der"), client_dir.join("ca.der"))?;
    let identity: Option<(Vec<u8>, Vec<u8>)> = match sc.client {
        ClientId::Trusted => Some((read_der(&a.client.join("localhost.der"))?, read_der(&a.client.join("localhost.key.der"))?)),
        ClientId::OtherCa => Some((read_der(&b.client.join("localhost.der"))?, read_der(&b.client.join("localhost.key.der"))?)),
        ClientId::SelfSigned => {
            let cert = rcgen::generate_simple_self_signed(vec!["localhost".to_string()])?;
            Some((cert.serialize_der()?, cert.serialize_private_key_der()))
        }
        ClientId::None => None,
    };
    let g = world.new_group();
    let use_raw = sc.raw_client || identity.is_none();
    if use_raw {
        let mut roots = RootCertStore::empty();
        roots.add(&Certificate(read_der(&trust.client.join("ca.der"))?))?;
        let id = identity.map(|(c, k)| (vec![Certificate(c)], PrivateKey(k)));
        match world.raw_connect(g, id, roots, None).await {
            Err(e) => rep.connect = Some(Err(format!("{e:#}"))),
            Ok((_ep, conn)) => {
                rep.connect = Some(Ok(()));
                let t = TopicName::try_from(topic).unwrap();
                match raw_open(&conn, Frame::RegisterPublisher(PublisherPayload { topic: t, retention_policy: 0, operations: vec![] })).await {
                    Err(e) => rep.open = Some(Err(format!("{e:#}"))),
                    Ok(mut s) => match tokio::time::timeout(Duration::from_secs(15), s.next()).await {
                        Ok(Some(Ok(Frame::Ok))) => {
                            rep.open = Some(Ok(()));
                            let r = s.send(Frame::Message(selium_protocol::MessagePayload { headers: None, message: "intruder".into() })).await;
                            rep.send = Some(r.map_err(|e| e.to_string()));
                            tokio::time::sleep(Duration::from_millis(1000)).await;
                        }
                        other => rep.open = Some(Err(format!("{:?}", other.map(|o| o.map(|r| r.map_err(|e| e.to_string())))))),
                    },
                }
            }
        }
    } else {
        let (c, k) = identity.unwrap();
        std::fs::write(client_dir.join("localhost.der"), c)?;
        std::fs::write(client_dir.join("localhost.key.der"), k)?;
        let dir = CertDir { client: client_dir.clone(), server: client_dir.clone() };
        let w = world.clone();
        let bo = backoff.clone();
        match ACTOR.scope(g, async move { w.client_with(&dir, bo, 5_000).await }).await {
            Err(e) => rep.connect = Some(Err(format!("{e:#}"))),
            Ok(client) => {
                rep.connect = Some(Ok(()));
                match tokio::time::timeout(Duration::from_secs(30), ACTOR.scope(g, client.publisher(topic).with_encoder(StringCodec).open())).await {
                    Err(_) => rep.open = Some(Err("open() did not return within 30 virtual seconds".into())),
                    Ok(Err(e)) => rep.open = Some(Err(e.to_string())),
                    Ok(Ok(mut p)) => {
                        rep.open = Some(Ok(()));
                        let r = tokio::time::timeout(Duration::from_secs(10), ACTOR.scope(g, p.send("intruder".to_string()))).await;
                        rep.send = Some(match r {
                            Ok(Ok(())) => Ok(()),
                            Ok(Err(e)) => Err(e.to_string()),
                            Err(_) => Err("send timed out".into()),
                        });
                        tokio::time::sleep(Duration::from_millis(1000)).await;
                    }
                }
            }
        }
    }
    if let Some((g, _c, mut s)) = watcher {
        while let Ok(Some(Ok(m))) = tokio::time::timeout(Duration::from_millis(1500), ACTOR.scope(g, s.next())).await {
            rep.subscriber_got.push(m);
        }
    }
    Ok(rep)
}

pub fn execute(prop: &str, sc: &TlsScript, opts: &ExecOpts) -> Outcome {
    let mut out = Outcome::default();
    let sc2 = sc.clone();
    let res = run_world(sc.net, sc.rt_seed, Duration::from_secs(600), move |world| scenario(world, sc2));
    let mut th = Hasher64::default();
    let sig = format!("client-{:?}/server-{:?}", sc.client, sc.server).to_lowercase();
    match res {
        Err(e) => {
            out.inconclusive = true;
            out.log.push(format!("world failed: {e:#}"));
        }
        Ok(r) => {
            fold(&mut out, prop, &r);
            match &r.value {
                None => out.violate(prop, "scenario-timeout", &sig, "the TLS scenario did not finish within 600 virtual seconds".into()),
                Some(Err(e)) => {
                    let text = format!("{e:#}");
                    out.log.push(format!("setup error: {text}"));
                    // before any datagram has travelled the scenario only runs the bundled
                    // generator and reads what it wrote: a missing or unreadable file there is
                    // the generator's set being incomplete, not a fault of the network
                    if r.net.delivered == 0 && (text.contains("No such file") || text.contains("os error 2") || text.contains("failed to read")) {
                        out.violate(prop, "generated-set-incomplete", &sig, format!("a file the bundled generator is supposed to write could not be read back: {text}"));
                    } else {
                        out.inconclusive = true;
                    }
                }
                Some(Ok(rep)) if rep.server_start_err.is_some() => {
                    // every file the server was given came out of the bundled generator
                    out.violate(prop, "generated-set-rejected-by-server", &sig, format!("the server could not load the generator's certificate files (renewed in place: {}): {}", sc.renewed_in_place, rep.server_start_err.clone().unwrap_or_default()));
                }
                Some(Ok(rep)) => {
                    if let Some(w) = &rep.watcher_failed {
                        // generator-issued client and server certificates under one CA
                        if sc.net.loss_ppm == 0 {
                            out.violate(prop, "trusted-peer-refused", &format!("{sig}:watcher"), format!("a client with the generator's certificates {w} (set renewed in place: {}, after a first client was built: {})", sc.renewed_in_place, sc.renewed_in_place && sc.renewed_after_first_client));
                        } else {
                            out.inconclusive = true;
                        }
                    }
                    let should_work = sc.client == ClientId::Trusted && sc.server != ServerId::OtherCa;
                    if sc.renewed_after_first_client && sc.renewed_in_place {
                        out.fault("certificate_set_renewed_after_a_client_was_built");
                    }
                    if sc.renewed_in_place {
                        out.fault("certificate_set_renewed_in_place");
                    }
                    let connected = matches!(rep.connect, Some(Ok(())));
                    let opened = matches!(rep.open, Some(Ok(())));
                    let delivered = rep.subscriber_got.iter().any(|m| m == "intruder");
                    th.word(connected as u64);
                    th.word(opened as u64);
                    th.word(delivered as u64);
                    if should_work {
                        let calm = sc.net.loss_ppm == 0;
                        if !(connected && opened) {
                            if calm {
                                out.violate(prop, "trusted-peer-refused", &sig, format!("generator-issued client and server certificates under the same CA: connect {:?}, open {:?}", rep.connect, rep.open));
                            } else {
                                out.inconclusive = true;
                            }
                        } else if rep.subscriber_started && !delivered {
                            if calm {
                                out.violate(prop, "trusted-peer-traffic-lost", &sig, format!("the trusted client's message did not reach the trusted subscriber (send {:?}, got {:?})", rep.send, rep.subscriber_got));
                            } else {
                                out.inconclusive = true;
                            }
                        } else {
                            out.probe("trusted_pair_round_trip");
                        }
                    } else {
                        if connected && opened {
                            out.violate(prop, "untrusted-peer-accepted", &sig, format!("{sig}: connect and the first registration both succeeded (send {:?})", rep.send));
                        }
                        if delivered {
                            out.violate(prop, "untrusted-traffic-delivered", &sig, format!("{sig}: a trusted subscriber received the refused client's message"));
                        }
                        if connected && !opened {
                            out.probe("refusal_surfaced_at_first_registration");
                        }
                        if !connected {
                            out.probe("refusal_surfaced_at_connect");
                        }
                    }
                    out.probe(&format!("pairing_{sig}"));
                    out.nontrivial = true;
                    out.steps = 1;
                    if opts.want_log {
                        out.log.push(format!("{rep:?}"));
                    }
                }
            }
            th.word(r.net_trace);
        }
    }
    out.trace_hash = th.finish();
    out.full_hash = th.finish();
    out
}

pub struct TlsFamily;
pub static MTLS: TlsFamily = TlsFamily;

impl Family for TlsFamily {
    fn name(&self) -> &'static str {
        "mtls-matrix"
    }
    fn engine(&self) -> &'static str {
        "N"
    }
    fn generate(&self, _p: &str, _t: Tier, index: u64, _n: u64, rng: &mut Rng) -> Value {
        let ps = pairings();
        let (client, server) = ps[(index % ps.len() as u64) as usize];
        let net = NetCfg { seed: rng.next(), loss_ppm: *rng.pick(&[0u32, 0, 10_000, 30_000]), dup_ppm: *rng.pick(&[0u32, 20_000]), min_delay_ms: rng.range(1, 30) as u32, jitter_ms: *rng.pick(&[0u32, 10, 80]) };
        serde_json::to_value(TlsScript { net, rt_seed: rng.next(), client, server, raw_client: rng.chance(1, 2), renewed_in_place: rng.chance(1, 3), renewed_after_first_client: rng.chance(1, 2) }).unwrap()
    }
    fn execute(&self, property: &str, body: &Value, opts: &ExecOpts) -> Outcome {
        match serde_json::from_value::<TlsScript>(body.clone()) {
            Ok(sc) => execute(property, &sc, opts),
            Err(e) => {
                let mut o = Outcome::default();
                o.inconclusive = true;
                o.log.push(format!("bad script: {e}"));
                o
            }
        }
    }
    fn shrink(&self, body: &Value) -> Vec<Value> {
        let Ok(sc) = serde_json::from_value::<TlsScript>(body.clone()) else { return vec![] };
        let mut out = vec![];
        if sc.renewed_in_place {
            let mut c = sc.clone();
            c.renewed_in_place = false;
            out.push(c);
        }
        if sc.net.loss_ppm > 0 || sc.net.dup_ppm > 0 || sc.net.jitter_ms > 0 {
            let mut c = sc.clone();
            c.net.loss_ppm = 0;
            c.net.dup_ppm = 0;
            c.net.jitter_ms = 0;
            out.push(c);
        }
        out.into_iter().map(|s| serde_json::to_value(s).unwrap()).collect()
    }
    fn watchdog_ms(&self) -> u64 {
        60_000
    }
    fn exhaustive_note(&self, _p: &str, tier: Tier) -> Option<String> {
        Some(format!("identity matrix: 16 pairings = client {{trusted CA, other CA, self-signed, none}} x server {{trusted CA, other CA, trusted CA presenting a full-chain file that also carries the other CA, other CA presenting its own full chain}}; every pairing run under {} seeded network schedules, with the refused peer played by the library client and by a raw quinn client, a third of them with the certificate set renewed in place", if tier == Tier::Quick { 20 } else { 1600 }))
    }
}
