//! C06 / C11 (client side) — the real client library against a *hostile server*: a raw QUIC endpoint
//! with the server's TLS configuration that answers registrations with crafted frames (error
//! frames whose text is long, multi-byte around every plausible cut-off, or not UTF-8; frames of
//! the wrong kind; bytes that are no frame at all; nothing). Whatever arrives, `open()` and the
//! first operation must return — an `Error` answer as an error — and no task may panic.

use super::net::NetCfg;
use super::reconnect::Kind;
use super::sim::*;
use crate::core::*;
use crate::rng::{Hasher64, Rng};
use anyhow::Result as AResult;
use bytes::Bytes;
use futures::{SinkExt, StreamExt};
use selium::keep_alive::BackoffStrategy;
use selium::prelude::*;
use selium::std::codecs::StringCodec;
use selium_protocol::{ErrorPayload, Frame, MessagePayload};
use serde::{Deserialize, Serialize};
use serde_json::Value;
use std::rc::Rc;
use std::time::Duration;

#[derive(Clone, Debug, Serialize, Deserialize, PartialEq)]
#[serde(rename_all = "snake_case")]
pub enum Text {
    Ascii(usize),
    /// `lead` ASCII bytes, then multi-byte characters up to `total` bytes: some character straddles
    /// every byte offset from `lead` on
    MultiByte { lead: usize, total: usize, width: u8 },
    /// bytes that are not UTF-8
    Invalid(usize),
}

#[derive(Clone, Debug, Serialize, Deserialize, PartialEq)]
#[serde(rename_all = "snake_case")]
pub enum Answer {
    Error { code: u32, text: Text },
    /// `Ok`, then an in-stream error (what a refused replier gets)
    OkThenError { code: u32, text: Text },
    WrongKind(u8),
    RawBytes { n: usize, fill: u64 },
    CloseStream,
    Nothing,
}

#[derive(Clone, Debug, Serialize, Deserialize)]
pub struct HsScript {
    pub net: NetCfg,
    pub rt_seed: u64,
    pub kind: Kind,
    pub answer: Answer,
}

fn gen_text(rng: &mut Rng) -> Text {
    match rng.below(4) {
        0 => Text::Ascii(*rng.pick(&[0usize, 1, 20, 255, 256, 257, 600, 5_000])),
        1 | 2 => {
            let cut = *rng.pick(&[16usize, 32, 64, 100, 120, 128, 200, 255, 256, 500, 512, 1000, 1024]);
            Text::MultiByte { lead: cut - rng.usize(0, 3).min(cut), total: cut + rng.usize(4, 40), width: *rng.pick(&[2u8, 3, 4]) }
        }
        _ => Text::Invalid(*rng.pick(&[1usize, 3, 255, 256, 300])),
    }
}

pub fn gen_script(rng: &mut Rng) -> HsScript {
    let kind = *rng.pick(&[Kind::Publisher, Kind::Subscriber, Kind::Requestor, Kind::Replier]);
    let answer = match rng.below(10) {
        0..=3 => Answer::Error { code: *rng.pick(&[0u32, 3, 4, 5, 6, 7, 77, u32::MAX]), text: gen_text(rng) },
        4 | 5 => Answer::OkThenError { code: *rng.pick(&[5u32, 4, 0, 77]), text: gen_text(rng) },
        6 => Answer::WrongKind(rng.below(6) as u8),
        7 => Answer::RawBytes { n: *rng.pick(&[1usize, 8, 9, 17, 100]), fill: rng.next() },
        8 => Answer::CloseStream,
        _ => Answer::Nothing,
    };
    HsScript { net: NetCfg { seed: rng.next(), loss_ppm: 0, dup_ppm: 0, min_delay_ms: rng.range(1, 10) as u32, jitter_ms: 0 }, rt_seed: rng.next(), kind, answer }
}

fn text_bytes(t: &Text) -> Vec<u8> {
    match t {
        Text::Ascii(n) => vec![b'e'; *n],
        Text::MultiByte { lead, total, width } => {
            let mut s = "a".repeat(*lead);
            let ch = match width {
                2 => 'é',
                3 => '中',
                _ => '😀',
            };
            while s.len() < *total {
                s.push(ch);
            }
            s.into_bytes()
        }
        Text::Invalid(n) => {
            let mut v = vec![0xffu8; *n];
            if let Some(f) = v.first_mut() {
                *f = 0xc3;
            }
            v
        }
    }
}

fn start_hostile_server(world: &Rc<World>, answer: Answer) -> AResult<()> {
    use quinn::{Endpoint, EndpointConfig, IdleTimeout, VarInt};
    use selium_protocol::BiStream;
    use selium_server::quic::{load_root_store, read_certs, server_config, ConfigOptions};
    let certs = world.certs.clone();
    let root_store = load_root_store(certs.server.join("ca.der"))?;
    let (chain, key) = read_certs(certs.server.join("localhost.der"), certs.server.join("localhost.key.der"))?;
    let config = server_config(root_store, chain, key, ConfigOptions { keylog: false, stateless_retry: false, max_idle_timeout: IdleTimeout::from(VarInt::from_u32(8_000)) })?;
    let sock = world.net.bind_server();
    let endpoint = Endpoint::new_with_abstract_socket(EndpointConfig::default(), Some(config), sock, std::sync::Arc::new(super::net::SimRuntime))?;
    tokio::task::spawn_local(async move {
        while let Some(connecting) = endpoint.accept().await {
            let answer = answer.clone();
            tokio::task::spawn_local(async move {
                let Ok(conn) = connecting.await else { return };
                while let Ok((mut send, recv)) = conn.accept_bi().await {
                    let answer = answer.clone();
                    tokio::task::spawn_local(async move {
                        if let Answer::RawBytes { n, fill } = &answer {
                            // no frame at all: an adversarial header followed by noise
                            let mut b = Rng::new(*fill).bytes(*n);
                            if b.len() >= 8 && fill % 2 == 0 {
                                b[..8].copy_from_slice(&(u64::MAX - 3).to_be_bytes());
                            }
                            let _ = send.write_all(&b).await;
                            tokio::time::sleep(Duration::from_secs(3)).await;
                            return;
                        }
                        let mut s = BiStream::from((send, recv));
                        let _ = s.next().await;
                        match answer {
                            Answer::Error { code, text } => {
                                let _ = s.send(Frame::Error(ErrorPayload { code, message: Bytes::from(text_bytes(&text)) })).await;
                            }
                            Answer::OkThenError { code, text } => {
                                let _ = s.send(Frame::Ok).await;
                                tokio::time::sleep(Duration::from_millis(100)).await;
                                let _ = s.send(Frame::Error(ErrorPayload { code, message: Bytes::from(text_bytes(&text)) })).await;
                            }
                            Answer::WrongKind(k) => {
                                let f = match k {
                                    0 => Frame::Message(MessagePayload { headers: None, message: "x".into() }),
                                    1 => Frame::BatchMessage(Bytes::from_static(&[0, 0, 0, 0, 0, 0, 0, 0])),
                                    2 => Frame::BatchMessage(Bytes::from_static(&[0xff; 3])),
                                    3 => Frame::RegisterReplier(selium_protocol::ReplierPayload { topic: selium_protocol::TopicName::try_from("/abc/def").unwrap() }),
                                    4 => Frame::Message(MessagePayload { headers: None, message: Bytes::new() }),
                                    _ => Frame::RegisterPublisher(selium_protocol::PublisherPayload { topic: selium_protocol::TopicName::try_from("/abc/def").unwrap(), retention_policy: 0, operations: vec![] }),
                                };
                                let _ = s.send(f).await;
                            }
                            Answer::CloseStream => return,
                            _ => {}
                        }
                        tokio::time::sleep(Duration::from_secs(3)).await;
                    });
                }
            });
        }
    });
    Ok(())
}

#[derive(Debug, Default)]
pub struct HsReport {
    /// "ok" / "err:<text>" / "hung"
    pub open: String,
    pub first_op: String,
}

async fn scenario(world: Rc<World>, sc: HsScript) -> AResult<HsReport> {
    let mut rep = HsReport::default();
    start_hostile_server(&world, sc.answer.clone())?;
    let g = world.new_group();
    let w = world.clone();
    let victim = ACTOR.scope(g, async move { w.client(BackoffStrategy::constant().with_step(Duration::from_millis(50)).with_max_attempts(2)).await }).await?;
    let topic = "/abc/def";
    let limit = Duration::from_secs(40);
    macro_rules! outcome {
        ($r:expr) => {
            match $r {
                Ok(Ok(v)) => Ok(v),
                Ok(Err(e)) => Err(format!("err:{}", e.to_string().chars().take(80).collect::<String>())),
                Err(_) => Err("hung".to_string()),
            }
        };
    }
    match sc.kind {
        Kind::Publisher => match outcome!(tokio::time::timeout(limit, ACTOR.scope(g, victim.publisher(topic).with_encoder(StringCodec).open())).await) {
            Err(e) => rep.open = e,
            Ok(mut p) => {
                rep.open = "ok".into();
                rep.first_op = match outcome!(tokio::time::timeout(limit, ACTOR.scope(g, p.send("hello".to_string()))).await) {
                    Ok(()) => "ok".into(),
                    Err(e) => e,
                };
            }
        },
        Kind::Subscriber => match outcome!(tokio::time::timeout(limit, ACTOR.scope(g, victim.subscriber(topic).with_decoder(StringCodec).open())).await) {
            Err(e) => rep.open = e,
            Ok(mut s) => {
                rep.open = "ok".into();
                rep.first_op = match tokio::time::timeout(Duration::from_secs(5), ACTOR.scope(g, s.next())).await {
                    Ok(Some(Ok(_))) => "ok".into(),
                    Ok(Some(Err(e))) => format!("err:{}", e.to_string().chars().take(80).collect::<String>()),
                    Ok(None) => "end".into(),
                    Err(_) => "quiet".into(),
                };
            }
        },
        Kind::Requestor => match outcome!(tokio::time::timeout(limit, ACTOR.scope(g, victim.requestor(topic).with_request_encoder(StringCodec).with_reply_decoder(StringCodec).with_request_timeout(Duration::from_millis(800))?.open())).await) {
            Err(e) => rep.open = e,
            Ok(mut q) => {
                rep.open = "ok".into();
                rep.first_op = match outcome!(tokio::time::timeout(limit, ACTOR.scope(g, q.request("hello".to_string()))).await) {
                    Ok(_) => "ok".into(),
                    Err(e) => e,
                };
            }
        },
        Kind::Replier => match outcome!(tokio::time::timeout(limit, ACTOR.scope(g, victim.replier(topic).with_request_decoder(StringCodec).with_reply_encoder(StringCodec).with_handler(|q: String| async move { Ok::<_, anyhow::Error>(q) }).open())).await) {
            Err(e) => rep.open = e,
            Ok(mut r) => {
                rep.open = "ok".into();
                rep.first_op = match tokio::time::timeout(Duration::from_secs(20), ACTOR.scope(g, r.listen())).await {
                    Ok(Ok(())) => "ok".into(),
                    Ok(Err(e)) => format!("err:{}", e.to_string().chars().take(80).collect::<String>()),
                    Err(_) => "listening".into(),
                };
            }
        },
    }
    Ok(rep)
}

pub fn execute(prop: &str, sc: &HsScript, opts: &ExecOpts) -> Outcome {
    let mut out = Outcome::default();
    let sc2 = sc.clone();
    let res = run_world(sc.net, sc.rt_seed, Duration::from_secs(600), move |world| scenario(world, sc2));
    let mut th = Hasher64::default();
    let sig = format!("hostile-server:{:?}", sc.kind).to_lowercase();
    match res {
        Err(e) => {
            out.inconclusive = true;
            out.log.push(format!("world failed: {e:#}"));
        }
        Ok(r) => {
            // panics in selium code are reported by fold()
            fold(&mut out, prop, &r);
            match &r.value {
                None => out.violate(prop, "scenario-timeout", &sig, "the scenario did not finish within 600 virtual seconds".into()),
                Some(Err(e)) => setup_failed(&mut out, prop, "hostile-server", &sc.net, e),
                Some(Ok(rep)) => {
                    th.bytes(rep.open.as_bytes());
                    th.bytes(rep.first_op.as_bytes());
                    out.fault(&format!(
                        "server_answers_{}",
                        match &sc.answer {
                            Answer::Error { .. } => "error_frame_with_crafted_text",
                            Answer::OkThenError { .. } => "ok_then_error_frame",
                            Answer::WrongKind(_) => "frame_of_wrong_kind",
                            Answer::RawBytes { .. } => "bytes_that_are_no_frame",
                            Answer::CloseStream => "closed_stream",
                            Answer::Nothing => "nothing",
                        }
                    ));
                    if rep.open == "hung" && !matches!(sc.answer, Answer::Nothing) {
                        out.violate(prop, "open-hangs", &sig, format!("open() did not return within 40 virtual seconds after the server answered {:?}", sc.answer));
                    }
                    if rep.first_op == "hung" {
                        out.violate(prop, "operation-hangs", &sig, format!("the first operation after open() did not return within 40 virtual seconds ({:?})", sc.answer));
                    }
                    // an explicit refusal is reported as an error (C11: "which the client library reports as an error")
                    if let Answer::Error { code, .. } = &sc.answer {
                        if rep.open == "ok" {
                            out.violate(prop, "refusal-not-reported", &sig, format!("the server refused the registration with error code {code}; open() returned Ok"));
                        }
                    }
                    if let (Answer::OkThenError { code, .. }, Kind::Replier) = (&sc.answer, sc.kind) {
                        if rep.open == "ok" && (rep.first_op == "ok" || rep.first_op == "listening") {
                            out.violate(prop, "refusal-not-reported", &format!("{sig}:in-stream"), format!("the server sent error code {code} on the established replier stream; listen() outcome: {}", rep.first_op));
                        }
                    }
                    out.nontrivial = true;
                    out.steps = 1;
                    if opts.want_log {
                        out.log.push(format!("{:?} -> {rep:?}", sc.answer));
                    }
                }
            }
            th.word(r.net_trace);
        }
    }
    out.trace_hash = th.finish();
    out.full_hash = th.finish();
    out
}

pub struct HostileServer;
pub static HOSTILE_SERVER: HostileServer = HostileServer;

impl Family for HostileServer {
    fn name(&self) -> &'static str {
        "hostile-server"
    }
    fn engine(&self) -> &'static str {
        "N"
    }
    fn generate(&self, _p: &str, _t: Tier, _i: u64, _n: u64, rng: &mut Rng) -> Value {
        serde_json::to_value(gen_script(rng)).unwrap()
    }
    fn execute(&self, property: &str, body: &Value, opts: &ExecOpts) -> Outcome {
        match serde_json::from_value::<HsScript>(body.clone()) {
            Ok(sc) => execute(property, &sc, opts),
            Err(e) => {
                let mut o = Outcome::default();
                o.inconclusive = true;
                o.log.push(format!("bad script: {e}"));
                o
            }
        }
    }
    fn shrink(&self, body: &Value) -> Vec<Value> {
        let Ok(sc) = serde_json::from_value::<HsScript>(body.clone()) else { return vec![] };
        let mut out = vec![];
        let shorter = |t: &Text| -> Vec<Text> {
            match t {
                Text::Ascii(n) if *n > 0 => vec![Text::Ascii(n / 2)],
                Text::MultiByte { lead, total, width } => vec![Text::MultiByte { lead: *lead, total: lead + *width as usize, width: *width }, Text::Ascii(*total)],
                Text::Invalid(n) if *n > 1 => vec![Text::Invalid(1)],
                _ => vec![],
            }
        };
        match &sc.answer {
            Answer::Error { code, text } => {
                for t in shorter(text) {
                    let mut c = sc.clone();
                    c.answer = Answer::Error { code: *code, text: t };
                    out.push(c);
                }
            }
            Answer::OkThenError { code, text } => {
                for t in shorter(text) {
                    let mut c = sc.clone();
                    c.answer = Answer::OkThenError { code: *code, text: t };
                    out.push(c);
                }
            }
            _ => {}
        }
        out.into_iter().map(|s| serde_json::to_value(s).unwrap()).collect()
    }
    fn stack_bytes(&self) -> usize {
        2 << 20
    }
    fn watchdog_ms(&self) -> u64 {
        40_000
    }
}
