//! C04 — every request() gets the reply to exactly its own request, or a timely timeout error:
//! real Requestor streams (cloned, several per connection, several connections) against a raw
//! replier peer that follows a per-request script (now / delayed / out of order / late / never /
//! twice), or against the real library Replier with handler delays.

use super::e2e::mild_net;
use super::net::NetCfg;
use super::sim::*;
use crate::core::*;
use crate::rng::{Hasher64, Rng};
use anyhow::{anyhow, Result as AResult};
use bytes::Bytes;
use futures::{SinkExt, StreamExt};
use selium::keep_alive::BackoffStrategy;
use selium::prelude::*;
use selium::std::codecs::StringCodec;
use selium::std::errors::SeliumError;
use selium_protocol::{Frame, MessagePayload, ReplierPayload, TopicName};
use serde::{Deserialize, Serialize};
use serde_json::Value;
use std::cell::RefCell;
use std::collections::HashMap;
use std::rc::Rc;
use std::time::Duration;

#[derive(Clone, Copy, Debug, Serialize, Deserialize, PartialEq)]
#[serde(rename_all = "snake_case")]
pub enum Plan {
    Now,
    After(u64),
    /// reply only after the caller's timeout has certainly expired
    Late,
    Never,
    /// reply, then reply again a little later
    Twice,
}

#[derive(Clone, Debug, Serialize, Deserialize)]
pub struct CallSpec {
    pub gap_ms: u64,
    pub k: usize,
    pub plan: Plan,
    pub pad: usize,
}

#[derive(Clone, Debug, Serialize, Deserialize)]
pub struct StreamSpec {
    pub client: usize,
    /// one list of sequential calls per clone
    pub clones: Vec<Vec<CallSpec>>,
}

#[derive(Clone, Debug, Serialize, Deserialize)]
pub struct RrScript {
    pub net: NetCfg,
    pub rt_seed: u64,
    pub n_clients: usize,
    pub streams: Vec<StreamSpec>,
    pub timeout_ms: u64,
    pub replier_first: bool,
    /// use the real library Replier (handler delay = plan delay) instead of the raw peer
    pub library_replier: bool,
    /// fault: the requestor clients' connections are closed (H1 hook) this long after the calls
    /// started; calls continue across the reconnect. Only reply attribution is judged then.
    #[serde(default)]
    pub outage_at_ms: Option<u64>,
    /// payload codec of both directions: false = StringCodec, true = BincodeCodec<String>
    #[serde(default)]
    pub bincode: bool,
    /// compression of requests / of replies
    #[serde(default)]
    pub req_comp: Option<super::e2e::CompKind>,
    #[serde(default)]
    pub rep_comp: Option<super::e2e::CompKind>,
    /// a further requestor on the topic that is not this library (a bridge, another
    /// implementation, a hostile peer): it sends this many requests that already carry a `cid`
    /// header naming one of the library requestors, with request ids the library streams use too
    #[serde(default)]
    pub intruder_requests: usize,
}

pub fn gen_script(rng: &mut Rng) -> RrScript {
    let n_clients = rng.usize(1, 2);
    let n_streams = rng.usize(1, 3);
    let timeout_ms = *rng.pick(&[50u64, 200, 500, 1000, 2000, 5000]);
    let library_replier = rng.chance(1, 5);
    let mut k = 0;
    let total_calls = rng.usize(1, 30);
    let mut streams: Vec<StreamSpec> = (0..n_streams).map(|_| StreamSpec { client: rng.usize(0, n_clients - 1), clones: (0..rng.usize(1, 4)).map(|_| vec![]).collect() }).collect();
    for _ in 0..total_calls {
        let s = rng.usize(0, n_streams - 1);
        let c = rng.usize(0, streams[s].clones.len() - 1);
        let plan = if library_replier {
            match rng.below(10) {
                0..=5 => Plan::Now,
                6..=8 => Plan::After(*rng.pick(&[1u64, 10, 40, 100])),
                _ => Plan::Late,
            }
        } else {
            match rng.below(20) {
                0..=7 => Plan::Now,
                8..=13 => Plan::After(*rng.pick(&[1u64, 5, 20, 30, 100, 300, 900])),
                14..=15 => Plan::Late,
                16..=17 => Plan::Never,
                _ => Plan::Twice,
            }
        };
        streams[s].clones[c].push(CallSpec { gap_ms: *rng.pick(&[0u64, 0, 0, 1, 10, 100]), k, plan, pad: *rng.pick(&[0usize, 0, 10, 1000]) });
        k += 1;
    }
    let outage_at_ms = if !library_replier && rng.chance(1, 4) { Some(*rng.pick(&[30u64, 150, 400, 900])) } else { None };
    if outage_at_ms.is_some() {
        // keep traffic flowing on every clone well past the reconnect, with overlapping calls
        for s in streams.iter_mut() {
            for cl in s.clones.iter_mut() {
                let extra = rng.usize(3, 6);
                for _ in 0..extra {
                    cl.push(CallSpec { gap_ms: *rng.pick(&[50u64, 150, 300]), k, plan: *rng.pick(&[Plan::Now, Plan::After(30), Plan::After(100), Plan::After(300)]), pad: 0 });
                    k += 1;
                }
            }
        }
    }
    use super::e2e::CompKind;
    let pick_comp = |rng: &mut Rng| -> Option<CompKind> { if rng.chance(1, 2) { None } else { Some(*rng.pick(&[CompKind::Gzip, CompKind::Zlib, CompKind::Zstd, CompKind::Lz4, CompKind::BrotliGeneric, CompKind::BrotliText])) } };
    let (req_comp, rep_comp) = (pick_comp(rng), pick_comp(rng));
    RrScript { net: mild_net(rng), rt_seed: rng.next(), n_clients, streams, timeout_ms, replier_first: rng.chance(1, 2), library_replier, outage_at_ms, bincode: rng.chance(1, 3), req_comp, rep_comp, intruder_requests: if rng.chance(1, 4) { rng.usize(5, 40) } else { 0 } }
}

#[derive(Clone, Debug)]
pub struct CallResult {
    pub k: usize,
    pub issued_ms: u64,
    pub returned_ms: u64,
    pub result: Result<String, String>,
    pub timeout_err: bool,
}

fn request_text(c: &CallSpec) -> String {
    format!("q{}:{}", c.k, "x".repeat(c.pad))
}

fn reply_text(req: &str) -> String {
    format!("re:{req}")
}

async fn scenario<C>(world: Rc<World>, sc: RrScript, codec: C) -> AResult<(Vec<CallResult>, HashMap<usize, u64>, Vec<String>)>
where
    C: selium::std::traits::codec::MessageEncoder<String> + selium::std::traits::codec::MessageDecoder<String> + Clone + Send + Sync + Unpin + 'static,
{
    use super::e2e::{make_comp, make_decomp, Level};
    use selium::std::traits::compression::{Compress, Decompress};
    world.start_server(ServerOpts::default())?;
    let backoff = if sc.outage_at_ms.is_some() { BackoffStrategy::constant().with_max_attempts(5).with_step(Duration::from_millis(50)) } else { BackoffStrategy::constant().with_max_attempts(0) };
    let topic_s = "/rpc/echo";
    let notes: Rc<RefCell<Vec<String>>> = Rc::new(RefCell::new(vec![]));
    // plan lookup by k
    let mut plans: HashMap<usize, Plan> = HashMap::new();
    for s in &sc.streams {
        for cl in &s.clones {
            for c in cl {
                plans.insert(c.k, c.plan);
            }
        }
    }
    let emitted_at: std::sync::Arc<std::sync::Mutex<HashMap<usize, u64>>> = std::sync::Arc::new(std::sync::Mutex::new(HashMap::new()));
    let timeout_ms = sc.timeout_ms;
    let (req_comp, rep_comp) = (sc.req_comp, sc.rep_comp);
    let codec_r = codec.clone();
    let start_replier = {
        let codec = codec_r;
        let world = world.clone();
        let plans = plans.clone();
        let emitted_at = emitted_at.clone();
        let notes = notes.clone();
        let library = sc.library_replier;
        move || {
            let codec = codec.clone();
            let world = world.clone();
            let plans = plans.clone();
            let emitted_at = emitted_at.clone();
            let notes = notes.clone();
            async move {
                let g = world.new_group();
                if library {
                    let w = world.clone();
                    let client = ACTOR.scope(g, async move { w.client(BackoffStrategy::constant().with_max_attempts(0)).await }).await?;
                    let plans2 = plans.clone();
                    let em = emitted_at.clone();
                    let mut replier = ACTOR
                        .scope(
                            g,
                            {
                                let mut b = client.replier(topic_s).with_request_decoder(codec.clone());
                                if let Some(k) = req_comp {
                                    b = b.with_request_decompression(make_decomp(k));
                                }
                                let mut b = b.with_reply_encoder(codec.clone());
                                if let Some(k) = rep_comp {
                                    b = b.with_reply_compression(make_comp(k, Level::Default));
                                }
                                b
                            }
                                .with_handler(move |req: String| {
                                    let k: usize = req[1..].split(':').next().and_then(|s| s.parse().ok()).unwrap_or(usize::MAX);
                                    let plan = plans2.get(&k).cloned().unwrap_or(Plan::Now);
                                    let em = em.clone();
                                    async move {
                                        let d = match plan {
                                            Plan::After(d) => d,
                                            Plan::Late => timeout_ms + 1500,
                                            _ => 0,
                                        };
                                        if d > 0 {
                                            tokio::time::sleep(Duration::from_millis(d)).await;
                                        }
                                        em.lock().unwrap().entry(k).or_insert(virtual_ms());
                                        Ok::<_, anyhow::Error>(reply_text(&req))
                                    }
                                })
                                .open(),
                        )
                        .await?;
                    tokio::task::spawn_local(ACTOR.scope(g, async move {
                        let r = replier.listen().await;
                        let _ = r;
                    }));
                } else {
                    let (_ep, conn) = world.raw_trusted(g, None).await?;
                    let t = TopicName::try_from(topic_s).map_err(|e| anyhow!("{e}"))?;
                    let stream = raw_open(&conn, Frame::RegisterReplier(ReplierPayload { topic: t })).await?;
                    let (sink, mut rx) = stream.split();
                    let sink = Rc::new(tokio::sync::Mutex::new(sink));
                    let first = rx.next().await;
                    if !matches!(first, Some(Ok(Frame::Ok))) {
                        notes.borrow_mut().push(format!("raw replier registration: {:?}", first.map(|r| r.map_err(|e| e.to_string()))));
                    }
                    tokio::task::spawn_local(async move {
                        let _keep = (_ep, conn);
                        while let Some(Ok(Frame::Message(req))) = rx.next().await {
                            // the raw replier speaks the requestor's transforms by hand
                            let mut body = req.message.clone();
                            if let Some(k) = req_comp {
                                body = match make_decomp(k).decompress(body) {
                                    Ok(b) => b,
                                    Err(_) => continue,
                                };
                            }
                            let mut bm = bytes::BytesMut::from(&body[..]);
                            let Ok(text) = codec.decode(&mut bm) else { continue };
                            let k: usize = text[1..].split(':').next().and_then(|s| s.parse().ok()).unwrap_or(usize::MAX);
                            let plan = plans.get(&k).cloned().unwrap_or(Plan::Now);
                            let sink = sink.clone();
                            let em = emitted_at.clone();
                            let mut reply_body = codec.encode(reply_text(&text)).unwrap_or_default();
                            if let Some(k) = rep_comp {
                                reply_body = make_comp(k, Level::Default).compress(reply_body).unwrap_or_default();
                            }
                            tokio::task::spawn_local(async move {
                                let (delay, twice) = match plan {
                                    Plan::Now => (0, false),
                                    Plan::After(d) => (d, false),
                                    Plan::Late => (timeout_ms + 1500, false),
                                    Plan::Never => return,
                                    Plan::Twice => (0, true),
                                };
                                if delay > 0 {
                                    tokio::time::sleep(Duration::from_millis(delay)).await;
                                }
                                em.lock().unwrap().entry(k).or_insert(virtual_ms());
                                let frame = Frame::Message(MessagePayload { headers: req.headers.clone(), message: reply_body });
                                let _ = sink.lock().await.send(frame.clone()).await;
                                if twice {
                                    tokio::time::sleep(Duration::from_millis(30)).await;
                                    let _ = sink.lock().await.send(frame).await;
                                }
                            });
                        }
                    });
                }
                Ok::<_, anyhow::Error>(())
            }
        }
    };
    if sc.replier_first {
        start_replier().await?;
        tokio::time::sleep(Duration::from_millis(500)).await;
    }
    // requestor clients and streams
    let mut clients = vec![];
    for _ in 0..sc.n_clients {
        let g = world.new_group();
        let w = world.clone();
        let b = backoff.clone();
        clients.push((g, ACTOR.scope(g, async move { w.client(b).await }).await?));
    }
    let mut requestors = vec![];
    for s in &sc.streams {
        let (g, c) = &clients[s.client];
        let mut b = c.requestor(topic_s).with_request_encoder(codec.clone());
        if let Some(k) = sc.req_comp {
            b = b.with_request_compression(make_comp(k, Level::Default));
        }
        let mut b = b.with_reply_decoder(codec.clone());
        if let Some(k) = sc.rep_comp {
            b = b.with_reply_decompression(make_decomp(k));
        }
        let r = ACTOR.scope(*g, b.with_request_timeout(Duration::from_millis(sc.timeout_ms))?.open()).await?;
        requestors.push((*g, r));
    }
    if !sc.replier_first {
        start_replier().await?;
    }
    if sc.intruder_requests > 0 {
        let gi = world.new_group();
        let (ep, conn) = world.raw_trusted(gi, None).await?;
        let t = TopicName::try_from(topic_s).map_err(|e| anyhow!("{e}"))?;
        let mut st = raw_open(&conn, Frame::RegisterRequestor(selium_protocol::RequestorPayload { topic: t })).await?;
        let _ = st.next().await;
        let n = sc.intruder_requests;
        let n_streams = sc.streams.len().max(1);
        let codec = codec.clone();
        let req_comp = sc.req_comp;
        tokio::task::spawn_local(ACTOR.scope(gi, async move {
            let _keep = (ep, conn);
            tokio::time::sleep(Duration::from_millis(1000)).await;
            for j in 0..n {
                let mut body = codec.encode(format!("q{}:intruder", 900_000 + j)).unwrap_or_default();
                if let Some(k) = req_comp {
                    body = make_comp(k, Level::Default).compress(body).unwrap_or_default();
                }
                let mut h = HashMap::new();
                h.insert("req_id".to_string(), format!("{}", j % 6));
                h.insert("cid".to_string(), format!("{}", j % n_streams));
                if st.send(Frame::Message(MessagePayload { headers: Some(h), message: body })).await.is_err() {
                    break;
                }
                // its own replies are read and dropped
                let _ = tokio::time::timeout(Duration::from_millis(25), st.next()).await;
            }
            loop {
                match tokio::time::timeout(Duration::from_secs(30), st.next()).await {
                    Ok(Some(Ok(_))) => {}
                    _ => break,
                }
            }
        }));
    }
    tokio::time::sleep(Duration::from_millis(1000)).await;
    // calls
    let results: Rc<RefCell<Vec<CallResult>>> = Rc::new(RefCell::new(vec![]));
    let mut tasks = vec![];
    for (si, s) in sc.streams.iter().enumerate() {
        for calls in &s.clones {
            let (g, base) = &requestors[si];
            let mut req = base.clone();
            let calls = calls.clone();
            let results = results.clone();
            let g = *g;
            tasks.push(tokio::task::spawn_local(ACTOR.scope(g, async move {
                for c in calls {
                    if c.gap_ms > 0 {
                        tokio::time::sleep(Duration::from_millis(c.gap_ms)).await;
                    }
                    let issued = virtual_ms();
                    let r = req.request(request_text(&c)).await;
                    let returned = virtual_ms();
                    let timeout_err = matches!(r, Err(SeliumError::RequestTimeout));
                    results.borrow_mut().push(CallResult { k: c.k, issued_ms: issued, returned_ms: returned, result: r.map_err(|e| e.to_string()), timeout_err });
                }
            })));
        }
    }
    if let Some(at) = sc.outage_at_ms {
        let cs: Vec<selium::Client> = clients.iter().map(|c| c.1.clone()).collect();
        tokio::task::spawn_local(async move {
            tokio::time::sleep(Duration::from_millis(at)).await;
            for c in cs {
                c.verif_close_connection().await;
            }
        });
    }
    for t in tasks {
        let _ = t.await;
    }
    let out = results.borrow().clone();
    let em = emitted_at.lock().unwrap().clone();
    let n = notes.borrow().clone();
    Ok((out, em, n))
}

pub fn execute(prop: &str, sc: &RrScript, opts: &ExecOpts) -> Outcome {
    let mut out = Outcome::default();
    let sc2 = sc.clone();
    let res = if sc.bincode {
        run_world(sc.net, sc.rt_seed, Duration::from_secs(900), move |world| scenario(world, sc2, selium::std::codecs::BincodeCodec::<String>::default()))
    } else {
        run_world(sc.net, sc.rt_seed, Duration::from_secs(900), move |world| scenario(world, sc2, StringCodec))
    };
    let mut th = Hasher64::default();
    match res {
        Err(e) => {
            out.inconclusive = true;
            out.log.push(format!("world failed: {e:#}"));
        }
        Ok(r) => {
            fold(&mut out, prop, &r);
            let outage = sc.outage_at_ms.is_some();
            let lost = !outage && r.events.iter().any(|e| e.message.contains("lost connection"));
            if lost {
                out.inconclusive = true;
                out.probe("connection_lost_during_no_loss_family");
            }
            if sc.intruder_requests > 0 {
                out.fault_n("requests_with_forged_cid_from_another_requestor", sc.intruder_requests as u64);
            }
            if outage {
                out.fault("requestor_connections_closed_mid_run");
                if r.events.iter().any(|e| e.message.contains("Successfully reconnected")) {
                    out.probe("calls_continued_after_reconnect");
                }
            }
            match &r.value {
                None => {
                    if !lost {
                        out.violate(prop, "scenario-timeout", "reqrep-e2e", "calls did not all return within 900 virtual seconds: a request() hangs".into());
                    }
                }
                Some(Err(e)) if sc.outage_at_ms.is_none() => setup_failed(&mut out, prop, "reqrep-e2e", &sc.net, e),
                Some(Err(e)) => {
                    out.inconclusive = true;
                    out.log.push(format!("setup error: {e:#}"));
                }
                Some(Ok((results, emitted, notes))) => {
                    let mut plans: HashMap<usize, (&CallSpec, usize)> = HashMap::new();
                    for (si, s) in sc.streams.iter().enumerate() {
                        for cl in &s.clones {
                            for c in cl {
                                plans.insert(c.k, (c, si));
                            }
                        }
                    }
                    let quiet_net = sc.net.loss_ppm == 0;
                    let slack = 200 + 8 * (sc.net.min_delay_ms as u64 + sc.net.jitter_ms as u64);
                    let total: usize = plans.len();
                    if results.len() != total && !lost && !outage {
                        out.violate(prop, "call-never-returned", "reqrep-e2e", format!("{} of {total} calls returned", results.len()));
                    }
                    let mut ok_order: Vec<usize> = vec![];
                    for cr in results {
                        let (spec, _si) = plans[&cr.k];
                        let want = reply_text(&request_text(spec));
                        let elapsed = cr.returned_ms.saturating_sub(cr.issued_ms);
                        th.word(cr.k as u64);
                        th.word(if cr.result.is_ok() { 1 } else if cr.timeout_err { 2 } else { 3 });
                        if lost {
                            continue;
                        }
                        match &cr.result {
                            Ok(v) => {
                                ok_order.push(cr.k);
                                if *v != want {
                                    out.violate(prop, "wrong-reply", "reqrep-e2e", format!("call q{} returned {:?}, the reply to another request (wanted {:?})", cr.k, v.chars().take(30).collect::<String>(), want.chars().take(30).collect::<String>()));
                                }
                                match emitted.get(&cr.k) {
                                    None => out.violate(prop, "reply-before-emission", "never-emitted", format!("call q{} returned Ok but the replier never emitted its reply (plan {:?})", cr.k, spec.plan)),
                                    Some(t) if *t > cr.returned_ms => out.violate(prop, "reply-before-emission", "early", format!("call q{} returned at {} ms, its reply was emitted at {} ms", cr.k, cr.returned_ms, t)),
                                    _ => {}
                                }
                                if matches!(spec.plan, Plan::Never | Plan::Late) && !outage {
                                    out.violate(prop, "late-reply-returned", "reqrep-e2e", format!("call q{} (plan {:?}, timeout {} ms) returned Ok after {elapsed} ms", cr.k, spec.plan, sc.timeout_ms));
                                }
                            }
                            Err(_) if outage => {
                                // calls cut by the injected outage are not owed anything
                                out.probe("calls_failed_around_outage");
                            }
                            Err(e) if cr.timeout_err => {
                                if elapsed < sc.timeout_ms {
                                    out.violate(prop, "timeout-too-early", "reqrep-e2e", format!("call q{} failed with a timeout after {elapsed} ms, configured {} ms", cr.k, sc.timeout_ms));
                                }
                                if elapsed > sc.timeout_ms + 1000 {
                                    out.violate(prop, "timeout-too-late", "reqrep-e2e", format!("call q{} failed with a timeout only after {elapsed} ms, configured {} ms", cr.k, sc.timeout_ms));
                                }
                                let d = match spec.plan {
                                    Plan::Now | Plan::Twice => Some(0),
                                    Plan::After(d) => Some(d),
                                    _ => None,
                                };
                                if let Some(d) = d {
                                    // the library replier serves requests one at a time, so its delays add up
                                    if quiet_net && !sc.library_replier && d + slack < sc.timeout_ms {
                                        out.violate(prop, "reply-not-delivered", "reqrep-e2e", format!("call q{} timed out ({e}) although its reply was scripted after {d} ms, well within the {} ms timeout, on a loss-free network", cr.k, sc.timeout_ms));
                                    } else {
                                        out.probe("legit_timeout_of_answered_call");
                                    }
                                }
                                out.probe("timeouts_observed");
                            }
                            Err(e) => {
                                out.violate(prop, "unexpected-error", "reqrep-e2e", format!("call q{} failed with {e} (plan {:?})", cr.k, spec.plan));
                            }
                        }
                    }
                    // A clone that has completed a call after the outage has re-established its
                    // stream: nothing disturbs it afterwards, so its later calls are owed an answer
                    // again (whatever the other clones of the same requestor are doing).
                    if outage && !results.is_empty() {
                        let t_start = results.iter().map(|c| c.issued_ms).min().unwrap_or(0);
                        let t_out = t_start + sc.outage_at_ms.unwrap_or(0);
                        for (si, s) in sc.streams.iter().enumerate() {
                            for (ci, cl) in s.clones.iter().enumerate() {
                                let mut recovered = false;
                                for spec in cl {
                                    let Some(cr) = results.iter().find(|c| c.k == spec.k) else { continue };
                                    if cr.issued_ms < t_out + 50 {
                                        continue;
                                    }
                                    match &cr.result {
                                        Ok(_) => recovered = true,
                                        Err(e) if recovered => {
                                            let scripted = match spec.plan {
                                                Plan::Now | Plan::Twice => Some(0),
                                                Plan::After(d) => Some(d),
                                                _ => None,
                                            };
                                            let legit_timeout = cr.timeout_err && (scripted.is_none() || !quiet_net || scripted.unwrap() + slack >= sc.timeout_ms);
                                            if !legit_timeout {
                                                out.violate(
                                                    prop,
                                                    "call-after-recovery-failed",
                                                    if cr.timeout_err { "timeout" } else { "other-error" },
                                                    format!("stream {si} clone {ci}: call q{} issued at {} ms failed with {e:?} although this clone had already completed a call after the outage at {t_out} ms (plan {:?})", cr.k, cr.issued_ms, spec.plan),
                                                );
                                            }
                                        }
                                        Err(_) => {}
                                    }
                                }
                                if recovered {
                                    out.probe("clones_recovered_after_outage");
                                }
                            }
                        }
                    }
                    if ok_order.windows(2).any(|w| w[0] > w[1]) {
                        out.probe("replies_completed_out_of_request_order");
                    }
                    if sc.streams.len() >= 2 {
                        out.probe("several_requestor_streams_with_colliding_ids");
                    }
                    if sc.library_replier {
                        out.probe("library_replier_runs");
                    }
                    out.nontrivial = results.len() >= 2;
                    out.steps = results.len() as u64;
                    if opts.want_log {
                        for cr in results {
                            out.log.push(format!("q{} issued {} returned {} -> {:?} (plan {:?})", cr.k, cr.issued_ms, cr.returned_ms, cr.result.as_ref().map(|s| s.chars().take(20).collect::<String>()), plans[&cr.k].0.plan));
                        }
                        out.log.push(format!("notes {notes:?}"));
                    }
                }
            }
            th.word(r.net_trace);
        }
    }
    out.trace_hash = th.finish();
    out.full_hash = th.finish();
    out
}

pub struct ReqRepE2e;
pub static REQREP_E2E: ReqRepE2e = ReqRepE2e;

impl Family for ReqRepE2e {
    fn name(&self) -> &'static str {
        "reqrep-e2e"
    }
    fn engine(&self) -> &'static str {
        "N"
    }
    fn generate(&self, _p: &str, _t: Tier, _i: u64, _n: u64, rng: &mut Rng) -> Value {
        serde_json::to_value(gen_script(rng)).unwrap()
    }
    fn execute(&self, property: &str, body: &Value, opts: &ExecOpts) -> Outcome {
        match serde_json::from_value::<RrScript>(body.clone()) {
            Ok(sc) => execute(property, &sc, opts),
            Err(e) => {
                let mut o = Outcome::default();
                o.inconclusive = true;
                o.log.push(format!("bad script: {e}"));
                o
            }
        }
    }
    fn shrink(&self, body: &Value) -> Vec<Value> {
        let Ok(sc) = serde_json::from_value::<RrScript>(body.clone()) else { return vec![] };
        let mut out = vec![];
        if sc.net.loss_ppm > 0 || sc.net.dup_ppm > 0 || sc.net.jitter_ms > 0 {
            let mut c = sc.clone();
            c.net.loss_ppm = 0;
            c.net.dup_ppm = 0;
            c.net.jitter_ms = 0;
            out.push(c);
        }
        if sc.intruder_requests > 0 {
            let mut c = sc.clone();
            c.intruder_requests = 0;
            out.push(c);
        }
        for si in 0..sc.streams.len() {
            if sc.streams.len() > 1 {
                let mut c = sc.clone();
                c.streams.remove(si);
                out.push(c);
            }
            for ci in 0..sc.streams[si].clones.len() {
                if sc.streams[si].clones.len() > 1 {
                    let mut c = sc.clone();
                    c.streams[si].clones.remove(ci);
                    out.push(c);
                }
                for k in 0..sc.streams[si].clones[ci].len() {
                    let mut c = sc.clone();
                    c.streams[si].clones[ci].remove(k);
                    out.push(c);
                    if sc.streams[si].clones[ci][k].pad > 0 || sc.streams[si].clones[ci][k].gap_ms > 0 {
                        let mut c = sc.clone();
                        c.streams[si].clones[ci][k].pad = 0;
                        c.streams[si].clones[ci][k].gap_ms = 0;
                        out.push(c);
                    }
                }
            }
        }
        if sc.library_replier {
            let mut c = sc.clone();
            c.library_replier = false;
            out.push(c);
        }
        if sc.outage_at_ms.is_some() {
            let mut c = sc.clone();
            c.outage_at_ms = None;
            out.push(c);
        }
        out.into_iter().map(|s| serde_json::to_value(s).unwrap()).collect()
    }
    fn watchdog_ms(&self) -> u64 {
        120_000
    }
}
