//! C17 — a stalled topic cannot block registration or traffic on other topics: a subscriber on
//! topic A stops reading, its router blocks, more registrations than the router's queue holds pile
//! up on A, and a well-behaved client must still be able to use topic B.

use super::hostile::probe_roundtrip;
use super::net::NetCfg;
use super::sim::*;
use crate::core::*;
use crate::rng::{Hasher64, Rng};
use anyhow::{anyhow, Result as AResult};
use futures::{SinkExt, StreamExt};
use quinn::{TransportConfig, VarInt};
use selium::keep_alive::BackoffStrategy;
use selium::prelude::*;
use selium::std::codecs::BytesCodec;
use selium_protocol::{Frame, PublisherPayload, SubscriberPayload, TopicName};
use serde::{Deserialize, Serialize};
use serde_json::Value;
use std::cell::RefCell;
use std::rc::Rc;
use std::time::Duration;

#[derive(Clone, Debug, Serialize, Deserialize)]
pub struct StallScript {
    pub net: NetCfg,
    pub rt_seed: u64,
    /// further registrations queued on the stalled topic
    pub n_regs: usize,
    pub n_reg_conns: usize,
    /// registrations sent before the stall begins (the rest after)
    pub regs_before_stall: usize,
    pub regs_are_publishers: bool,
    pub server_send_window: u64,
    pub sub_stream_window: u32,
    pub msg_size: usize,
    pub stall_wait_ms: u64,
    /// additionally probe topic B from a connection that itself has registrations waiting in the
    /// stalled topic's queue
    #[serde(default)]
    pub probe_from_queued_conn: bool,
    /// one more badly behaved participant of topic A: a peer that grants no flow-control credit at
    /// all on its registration stream, so that even the server's answer to it cannot be delivered
    #[serde(default)]
    pub zero_window_peer: bool,
    /// additionally probe topic B from the very connection whose publisher is blocked on topic A
    #[serde(default)]
    pub probe_from_publisher_conn: bool,
}

pub fn gen_script(rng: &mut Rng) -> StallScript {
    let n_regs = *rng.pick(&[0usize, 1, 50, 99, 100, 101, 102, 103, 110, 150, 200]);
    let n_reg_conns = ((n_regs + 89) / 90).max(1) + rng.usize(0, 1);
    StallScript {
        net: NetCfg { seed: rng.next(), loss_ppm: 0, dup_ppm: 0, min_delay_ms: rng.range(1, 8) as u32, jitter_ms: *rng.pick(&[0u32, 3]) },
        rt_seed: rng.next(),
        n_regs,
        n_reg_conns,
        regs_before_stall: if rng.chance(1, 3) { rng.usize(0, n_regs) } else { 0 },
        regs_are_publishers: rng.chance(1, 3),
        server_send_window: *rng.pick(&[32_768u64, 65_536, 131_072]),
        sub_stream_window: *rng.pick(&[2_048u32, 4_096, 16_384]),
        msg_size: *rng.pick(&[1_024usize, 4_096, 16_000]),
        stall_wait_ms: *rng.pick(&[2_000u64, 4_000]),
        probe_from_queued_conn: rng.chance(1, 2),
        zero_window_peer: rng.chance(1, 3),
        probe_from_publisher_conn: rng.chance(1, 2),
    }
}

#[derive(Debug, Default)]
pub struct StallReport {
    pub published_before_block: usize,
    pub publisher_blocked: bool,
    pub regs_sent: usize,
    pub regs_answered_ok: usize,
    pub probe_ok: bool,
    pub probe_ms: u64,
    /// Some(result) if the queued-connection probe ran
    pub queued_conn_probe_ok: Option<bool>,
    pub publisher_conn_probe_ok: Option<bool>,
    pub notes: Vec<String>,
}

async fn scenario(world: Rc<World>, sc: StallScript) -> AResult<StallReport> {
    let mut rep = StallReport::default();
    world.start_server(ServerOpts { idle_timeout_ms: 60_000, send_window: Some(sc.server_send_window), stream_receive_window: None })?;
    let topic_a = TopicName::try_from("/stall/topica").map_err(|e| anyhow!("{e}"))?;
    // the stalled subscriber: tiny receive windows, never reads after the Ok
    let gs = world.new_group();
    let mut t = TransportConfig::default();
    t.stream_receive_window(VarInt::from_u32(sc.sub_stream_window));
    t.receive_window(VarInt::from_u32(sc.sub_stream_window * 2));
    t.max_idle_timeout(Some(VarInt::from_u32(600_000).into()));
    let (_eps, conn_s) = world.raw_trusted(gs, Some(t)).await?;
    let mut stalled = raw_open(&conn_s, Frame::RegisterSubscriber(SubscriberPayload { topic: topic_a.clone(), retention_policy: 0, operations: vec![] })).await?;
    let first = stalled.next().await;
    if !matches!(first, Some(Ok(Frame::Ok))) {
        rep.notes.push(format!("stalled subscriber registration: {:?}", first.map(|r| r.map_err(|e| e.to_string()))));
    }
    // registration connections
    let mut reg_conns = vec![];
    for _ in 0..sc.n_reg_conns {
        let g = world.new_group();
        let mut t = TransportConfig::default();
        t.max_idle_timeout(Some(VarInt::from_u32(600_000).into()));
        reg_conns.push(world.raw_trusted(g, Some(t)).await?);
    }
    let answered = Rc::new(RefCell::new(0usize));
    let send_regs = |from: usize, to: usize| {
        let answered = answered.clone();
        let conns: Vec<quinn::Connection> = reg_conns.iter().map(|c| c.1.clone()).collect();
        let topic_a = topic_a.clone();
        let publishers = sc.regs_are_publishers;
        async move {
            let mut sent = 0;
            for i in from..to {
                let conn = &conns[i % conns.len()];
                let frame = if publishers {
                    Frame::RegisterPublisher(PublisherPayload { topic: topic_a.clone(), retention_policy: 0, operations: vec![] })
                } else {
                    Frame::RegisterSubscriber(SubscriberPayload { topic: topic_a.clone(), retention_policy: 0, operations: vec![] })
                };
                match tokio::time::timeout(Duration::from_secs(5), raw_open(conn, frame)).await {
                    Ok(Ok(mut s)) => {
                        sent += 1;
                        let answered = answered.clone();
                        tokio::task::spawn_local(async move {
                            if let Some(Ok(Frame::Ok)) = s.next().await {
                                *answered.borrow_mut() += 1;
                            }
                            // keep the stream open (a queued peer that simply waits)
                            futures::future::pending::<()>().await;
                        });
                    }
                    _ => break,
                }
            }
            sent
        }
    };
    rep.regs_sent += send_regs(0, sc.regs_before_stall).await;
    // the publisher that drives topic A into the stall
    let gp = world.new_group();
    let w = world.clone();
    let backoff = BackoffStrategy::constant().with_max_attempts(0);
    let b = backoff.clone();
    let pub_client = ACTOR.scope(gp, async move { w.client(b).await }).await?;
    let mut publisher = ACTOR.scope(gp, pub_client.publisher("/stall/topica").with_encoder(BytesCodec).open()).await?;
    let published = Rc::new(RefCell::new(0usize));
    let p2 = published.clone();
    let size = sc.msg_size;
    let pub_task = tokio::task::spawn_local(ACTOR.scope(gp, async move {
        for _ in 0..2_000 {
            if publisher.send(vec![7u8; size]).await.is_err() {
                break;
            }
            *p2.borrow_mut() += 1;
        }
    }));
    tokio::time::sleep(Duration::from_millis(sc.stall_wait_ms)).await;
    rep.published_before_block = *published.borrow();
    rep.publisher_blocked = !pub_task.is_finished();
    // pile registrations onto the stalled topic
    rep.regs_sent += send_regs(sc.regs_before_stall, sc.n_regs).await;
    tokio::time::sleep(Duration::from_millis(1_000)).await;
    rep.regs_answered_ok = *answered.borrow();
    let mut _zero_window_keep = None;
    if sc.zero_window_peer {
        let g = world.new_group();
        let mut t = TransportConfig::default();
        t.stream_receive_window(VarInt::from_u32(0));
        t.max_idle_timeout(Some(VarInt::from_u32(600_000).into()));
        let (ep, conn) = world.raw_trusted(g, Some(t)).await?;
        let s = tokio::time::timeout(Duration::from_secs(5), raw_open(&conn, Frame::RegisterSubscriber(SubscriberPayload { topic: topic_a.clone(), retention_policy: 0, operations: vec![] }))).await;
        if !matches!(s, Ok(Ok(_))) {
            rep.notes.push("zero-window peer could not send its registration".into());
        }
        tokio::time::sleep(Duration::from_millis(500)).await;
        _zero_window_keep = Some((ep, conn, s));
    }
    // the probe: a well-behaved pair of clients on another topic
    let ga = world.new_group();
    let gb = world.new_group();
    let w = world.clone();
    let b = backoff.clone();
    let t0 = virtual_ms();
    let probe = async {
        let ca = ACTOR.scope(ga, async move { w.client(b).await }).await?;
        let w = world.clone();
        let cb = ACTOR.scope(gb, async move { w.client(backoff).await }).await?;
        Ok::<bool, anyhow::Error>(probe_roundtrip(&ca, ga, &cb, gb, "/other/topicb").await)
    };
    match tokio::time::timeout(Duration::from_secs(10), probe).await {
        Ok(Ok(ok)) => rep.probe_ok = ok,
        Ok(Err(e)) => rep.notes.push(format!("probe setup failed: {e:#}")),
        Err(_) => rep.notes.push("probe timed out after 10 virtual seconds".into()),
    }
    rep.probe_ms = virtual_ms() - t0;
    if sc.probe_from_queued_conn && rep.regs_sent > 0 {
        // the same question asked by a peer that is itself waiting to join the stalled topic
        let conn = reg_conns[0].1.clone();
        let topic_b = TopicName::try_from("/other/topicq").map_err(|e| anyhow!("{e}"))?;
        let r = tokio::time::timeout(Duration::from_secs(10), async {
            let mut s = raw_open(&conn, Frame::RegisterSubscriber(SubscriberPayload { topic: topic_b.clone(), retention_policy: 0, operations: vec![] })).await?;
            match s.next().await {
                Some(Ok(Frame::Ok)) => {}
                other => return Err(anyhow!("registration on topic B answered {:?}", other.map(|r| r.map_err(|e| e.to_string())))),
            }
            let mut p = raw_open(&conn, Frame::RegisterPublisher(PublisherPayload { topic: topic_b.clone(), retention_policy: 0, operations: vec![] })).await?;
            let _ = p.next().await;
            tokio::time::sleep(Duration::from_millis(300)).await;
            p.send(Frame::Message(selium_protocol::MessagePayload { headers: None, message: "probe".into() })).await.map_err(|e| anyhow!("{e}"))?;
            match s.next().await {
                Some(Ok(Frame::Message(m))) if &m.message[..] == b"probe" => Ok(true),
                other => Err(anyhow!("no delivery on topic B: {:?}", other.map(|r| r.map_err(|e| e.to_string())))),
            }
        })
        .await;
        rep.queued_conn_probe_ok = Some(matches!(r, Ok(Ok(true))));
        if let Ok(Err(e)) = &r {
            rep.notes.push(format!("queued-connection probe: {e:#}"));
        } else if r.is_err() {
            rep.notes.push("queued-connection probe timed out after 10 virtual seconds".into());
        }
    }
    if sc.probe_from_publisher_conn {
        let gsub = world.new_group();
        let w = world.clone();
        let pc = &pub_client;
        let r = tokio::time::timeout(Duration::from_secs(15), async move {
            let sub_client = ACTOR.scope(gsub, async move { w.client(BackoffStrategy::constant().with_max_attempts(0)).await }).await?;
            Ok::<bool, anyhow::Error>(probe_roundtrip(&sub_client, gsub, pc, gp, "/other/topicp").await)
        })
        .await;
        rep.publisher_conn_probe_ok = Some(matches!(r, Ok(Ok(true))));
        if !matches!(r, Ok(Ok(true))) {
            rep.notes.push("probe from the blocked publisher's own connection failed".into());
        }
    }
    pub_task.abort();
    drop(stalled);
    Ok(rep)
}

pub fn execute(prop: &str, sc: &StallScript, opts: &ExecOpts) -> Outcome {
    let mut out = Outcome::default();
    let sc2 = sc.clone();
    let res = run_world(sc.net, sc.rt_seed, Duration::from_secs(900), move |world| scenario(world, sc2));
    let mut th = Hasher64::default();
    match res {
        Err(e) => {
            out.inconclusive = true;
            out.log.push(format!("world failed: {e:#}"));
        }
        Ok(r) => {
            fold(&mut out, prop, &r);
            match &r.value {
                None => out.violate(prop, "scenario-timeout", "stall", "the stall scenario did not finish".into()),
                Some(Err(e)) => {
                    out.inconclusive = true;
                    out.log.push(format!("setup error: {e:#}"));
                }
                Some(Ok(rep)) => {
                    th.word(rep.regs_sent as u64);
                    th.word(rep.probe_ok as u64);
                    if rep.publisher_blocked {
                        out.probe("topic_a_router_blocked");
                        out.fault("stalled_subscriber");
                    } else {
                        // the stall did not materialise: nothing to conclude from this run
                        out.inconclusive = true;
                        out.probe("stall_did_not_materialise");
                    }
                    out.fault_n("registrations_queued_on_stalled_topic", rep.regs_sent as u64);
                    if rep.regs_sent >= 102 {
                        out.probe("registration_queue_overfull");
                    }
                    if rep.publisher_blocked && !rep.probe_ok {
                        let bucket = if sc.zero_window_peer { "zero-window-peer" } else if rep.regs_sent >= 102 { "queue-overfull" } else { "queue-not-full" };
                        out.violate(
                            prop,
                            "other-topic-blocked",
                            bucket,
                            format!("topic A stalled (publisher blocked after {} messages), {} registrations queued on it ({} answered Ok): a pub/sub round trip on topic B did not complete within 10 virtual seconds ({:?})", rep.published_before_block, rep.regs_sent, rep.regs_answered_ok, rep.notes),
                        );
                    }
                    if rep.publisher_blocked && rep.publisher_conn_probe_ok == Some(false) {
                        out.violate(prop, "other-topic-blocked", "publisher-connection", format!("topic A stalled: the client whose publisher is blocked on it could not publish on topic B over the same connection within 15 virtual seconds ({:?})", rep.notes));
                    }
                    if rep.publisher_conn_probe_ok == Some(true) {
                        out.probe("probe_from_blocked_publishers_connection_ok");
                    }
                    if rep.publisher_blocked && rep.queued_conn_probe_ok == Some(false) {
                        let bucket = if rep.regs_sent >= 102 { "queued-connection:queue-overfull" } else { "queued-connection:queue-not-full" };
                        out.violate(
                            prop,
                            "other-topic-blocked",
                            bucket,
                            format!("topic A stalled with {} registrations queued on it: a peer whose own registrations wait in that queue could not register and exchange a message on topic B within 10 virtual seconds ({:?})", rep.regs_sent, rep.notes),
                        );
                    }
                    if rep.queued_conn_probe_ok == Some(true) {
                        out.probe("probe_from_queued_connection_ok");
                    }
                    if rep.probe_ok {
                        out.probe("probe_round_trip_ok");
                        let e = out.probes.entry("max_probe_ms".into()).or_insert(0);
                        *e = (*e).max(rep.probe_ms);
                    }
                    out.nontrivial = rep.publisher_blocked;
                    out.steps = rep.regs_sent as u64;
                    if opts.want_log {
                        out.log.push(format!("{rep:?}"));
                    }
                }
            }
            th.word(r.net_trace);
        }
    }
    out.trace_hash = th.finish();
    out.full_hash = th.finish();
    out
}

pub struct StallFamily;
pub static STALL: StallFamily = StallFamily;

impl Family for StallFamily {
    fn name(&self) -> &'static str {
        "stall"
    }
    fn engine(&self) -> &'static str {
        "N"
    }
    fn generate(&self, _p: &str, _t: Tier, _i: u64, _n: u64, rng: &mut Rng) -> Value {
        serde_json::to_value(gen_script(rng)).unwrap()
    }
    fn execute(&self, property: &str, body: &Value, opts: &ExecOpts) -> Outcome {
        match serde_json::from_value::<StallScript>(body.clone()) {
            Ok(sc) => execute(property, &sc, opts),
            Err(e) => {
                let mut o = Outcome::default();
                o.inconclusive = true;
                o.log.push(format!("bad script: {e}"));
                o
            }
        }
    }
    fn shrink(&self, body: &Value) -> Vec<Value> {
        let Ok(sc) = serde_json::from_value::<StallScript>(body.clone()) else { return vec![] };
        let mut out = vec![];
        for n in [0usize, 50, 100, 101, 102, 103] {
            if n < sc.n_regs {
                let mut c = sc.clone();
                c.n_regs = n;
                c.regs_before_stall = c.regs_before_stall.min(n);
                out.push(c);
            }
        }
        if sc.zero_window_peer {
            let mut c = sc.clone();
            c.zero_window_peer = false;
            out.push(c);
        }
        if sc.probe_from_publisher_conn {
            let mut c = sc.clone();
            c.probe_from_publisher_conn = false;
            out.push(c);
        }
        if sc.regs_before_stall > 0 {
            let mut c = sc.clone();
            c.regs_before_stall = 0;
            out.push(c);
        }
        if sc.regs_are_publishers {
            let mut c = sc.clone();
            c.regs_are_publishers = false;
            out.push(c);
        }
        if sc.net.jitter_ms > 0 {
            let mut c = sc.clone();
            c.net.jitter_ms = 0;
            out.push(c);
        }
        out.into_iter().map(|s| serde_json::to_value(s).unwrap()).collect()
    }
    fn watchdog_ms(&self) -> u64 {
        90_000
    }
}
