//! C11 (N part) — every stream open is answered truthfully; no frame sequence from an
//! authenticated peer breaks the server. Raw peers open streams with every kind of first frame,
//! send every kind of frame after a valid registration, register in a role that does not match the
//! topic's existing kind, and send requests that exceed the frame limit only once the server adds
//! its routing tag. Every stream that was told `Ok` gets a role probe; afterwards well-behaved
//! library clients must still complete round trips.

use super::hostile::probe_roundtrip;
use super::net::NetCfg;
use super::sim::*;
use crate::core::*;
use crate::rng::{Hasher64, Rng};
use anyhow::{anyhow, Result as AResult};
use bytes::Bytes;
use futures::{SinkExt, StreamExt};
use selium::keep_alive::BackoffStrategy;
use selium::prelude::*;
use selium::std::codecs::StringCodec;
use selium_protocol::{BiStream, ErrorPayload, Frame, MessagePayload, PublisherPayload, ReplierPayload, RequestorPayload, SubscriberPayload, TopicName};
use serde::{Deserialize, Serialize};
use serde_json::Value;
use std::collections::HashMap;
use std::rc::Rc;
use std::time::Duration;

#[derive(Clone, Copy, Debug, Serialize, Deserialize, PartialEq)]
#[serde(rename_all = "snake_case")]
pub enum Role {
    Publisher,
    Subscriber,
    Replier,
    Requestor,
}

#[derive(Clone, Copy, Debug, Serialize, Deserialize, PartialEq)]
#[serde(rename_all = "snake_case")]
pub enum Kind {
    RegPub,
    RegSub,
    RegRep,
    RegReq,
    Message,
    MessageWithHeaders,
    /// request that fits the frame limit until the server adds its `cid` header
    MessageNearLimit,
    Batch,
    Error,
    Ok,
    /// a registration (role by `giant_slack % 4`) whose namespace is far too long: the frame comes
    /// within `giant_slack` bytes of the frame limit. It has to be refused with an error frame,
    /// however little room the refusal has left.
    RegGiantInvalid,
}

#[derive(Clone, Copy, Debug, Serialize, Deserialize, PartialEq)]
#[serde(rename_all = "snake_case")]
pub enum Prior {
    Fresh,
    UsedPubSub,
    UsedReqRep,
}

#[derive(Clone, Debug, Serialize, Deserialize)]
pub struct Action {
    pub prior: Prior,
    /// the stream's first frame
    pub first: Kind,
    /// frames sent afterwards on the same stream (only if the server answered Ok)
    pub then: Vec<Kind>,
    /// publisher registrations only: once a library subscriber listens, the raw publisher sends
    /// (laid out by hand, not by the library's encoder) a message whose frame payload is this many
    /// bytes short of the frame limit; the subscriber must stay served
    #[serde(default)]
    pub at_limit_slack: Option<usize>,
    #[serde(default)]
    pub giant_slack: u32,
}

#[derive(Clone, Debug, Serialize, Deserialize)]
pub struct FramesScript {
    pub net: NetCfg,
    pub rt_seed: u64,
    pub actions: Vec<Action>,
}

fn role_of(k: Kind) -> Option<Role> {
    match k {
        Kind::RegPub => Some(Role::Publisher),
        Kind::RegSub => Some(Role::Subscriber),
        Kind::RegRep => Some(Role::Replier),
        Kind::RegReq => Some(Role::Requestor),
        _ => None,
    }
}

fn frame_of(k: Kind, topic: &TopicName, n: usize) -> Frame {
    match k {
        Kind::RegPub => Frame::RegisterPublisher(PublisherPayload { topic: topic.clone(), retention_policy: 0, operations: vec![] }),
        Kind::RegSub => Frame::RegisterSubscriber(SubscriberPayload { topic: topic.clone(), retention_policy: 0, operations: vec![] }),
        Kind::RegRep => Frame::RegisterReplier(ReplierPayload { topic: topic.clone() }),
        Kind::RegReq => Frame::RegisterRequestor(RequestorPayload { topic: topic.clone() }),
        Kind::Message => Frame::Message(MessagePayload { headers: None, message: Bytes::from(format!("junk{n}")) }),
        Kind::MessageWithHeaders => {
            let mut h = HashMap::new();
            h.insert("req_id".to_string(), format!("{}", 1000 + n));
            h.insert("cid".to_string(), "0".to_string());
            Frame::Message(MessagePayload { headers: Some(h), message: Bytes::from(format!("junk{n}")) })
        }
        Kind::MessageNearLimit => {
            // headers {req_id: "7"}: 1 + 8 + (8+6) + (8+1) ; message 8 + n  => pick n so the total is exactly 1 MiB
            let mut h = HashMap::new();
            h.insert("req_id".to_string(), "7".to_string());
            let overhead = 1 + 8 + (8 + 6) + (8 + 1) + 8;
            Frame::Message(MessagePayload { headers: Some(h), message: Bytes::from(vec![b'z'; 1024 * 1024 - overhead]) })
        }
        Kind::Batch => Frame::BatchMessage(Bytes::from(format!("batch{n}"))),
        Kind::Error => Frame::Error(ErrorPayload { code: 99, message: Bytes::from("peer error") }),
        Kind::Ok => Frame::Ok,
        Kind::RegGiantInvalid => giant_registration(n as u32),
    }
}

fn giant_registration(slack: u32) -> Frame {
    const MAX: usize = 1_048_576;
    let pubsub = slack % 4 < 2;
    // payload = two length-prefixed strings (+ retention and the operation count for pub/sub)
    let overhead = 8 + 8 + 3 + if pubsub { 16 } else { 0 };
    let len = MAX - overhead - slack as usize;
    let topic = TopicName::_create_unchecked(&"a".repeat(len), "abc");
    match slack % 4 {
        0 => Frame::RegisterPublisher(PublisherPayload { topic, retention_policy: 0, operations: vec![] }),
        1 => Frame::RegisterSubscriber(SubscriberPayload { topic, retention_policy: 0, operations: vec![] }),
        2 => Frame::RegisterReplier(ReplierPayload { topic }),
        _ => Frame::RegisterRequestor(RequestorPayload { topic }),
    }
}

const ALL_KINDS: &[Kind] = &[Kind::RegPub, Kind::RegSub, Kind::RegRep, Kind::RegReq, Kind::Message, Kind::MessageWithHeaders, Kind::MessageNearLimit, Kind::Batch, Kind::Error, Kind::Ok];

pub fn gen_script(rng: &mut Rng) -> FramesScript {
    let n = rng.usize(1, 5);
    let actions = (0..n)
        .map(|_| {
            let first = if rng.chance(1, 12) { Kind::RegGiantInvalid } else if rng.chance(3, 4) { *rng.pick(&[Kind::RegPub, Kind::RegSub, Kind::RegRep, Kind::RegReq]) } else { *rng.pick(ALL_KINDS) };
            let giant_slack = if first == Kind::RegGiantInvalid { rng.usize(0, 300) as u32 } else { 0 };
            let prior = *rng.pick(&[Prior::Fresh, Prior::Fresh, Prior::UsedPubSub, Prior::UsedReqRep]);
            let n_then = *rng.pick(&[0usize, 0, 1, 2, 4]);
            let mut then = vec![];
            for _ in 0..n_then {
                let k = *rng.pick(ALL_KINDS);
                // the megabyte-sized request is kept rare
                then.push(if k == Kind::MessageNearLimit && !rng.chance(1, 3) { Kind::Message } else { k });
            }
            let at_limit_slack = if first == Kind::RegPub && prior != Prior::UsedReqRep && rng.chance(1, 4) { Some(*rng.pick(&[0usize, 0, 1, 4, 8, 9, 40])) } else { None };
            if at_limit_slack.is_some() {
                then.clear();
            }
            Action { prior, first, then, at_limit_slack, giant_slack }
        })
        .collect();
    FramesScript { net: NetCfg::calm(rng.next()), rt_seed: rng.next(), actions }
}

#[derive(Debug, Clone, PartialEq)]
pub enum Answer {
    Ok,
    Error(u32),
    Closed,
    Timeout,
    Other,
}

#[derive(Debug, Clone, Default)]
pub struct ActionReport {
    pub answer: Option<Answer>,
    /// result of the role probe for a stream that was told Ok: Some(true) served, Some(false) abandoned
    pub served: Option<bool>,
    /// an explicit error frame arrived after the Ok (e.g. replier already bound)
    pub refused_after_ok: Option<u32>,
    pub same_topic_usable: Option<bool>,
    pub notes: Vec<String>,
}

async fn next_frame(s: &mut BiStream, ms: u64) -> Result<Option<Frame>, &'static str> {
    match tokio::time::timeout(Duration::from_millis(ms), s.next()).await {
        Ok(Some(Ok(f))) => Ok(Some(f)),
        Ok(Some(Err(_))) | Ok(None) => Ok(None),
        Err(_) => Err("timeout"),
    }
}

struct Helpers {
    a: selium::Client,
    ga: u32,
    b: selium::Client,
    gb: u32,
}

async fn use_pubsub(h: &Helpers, topic: &str) -> bool {
    probe_roundtrip(&h.a, h.ga, &h.b, h.gb, topic).await
}

async fn use_reqrep(h: &Helpers, topic: &str, keep_replier: bool) -> bool {
    let r: AResult<bool> = async {
        let mut rep = ACTOR.scope(h.ga, h.a.replier(topic).with_request_decoder(StringCodec).with_reply_encoder(StringCodec).with_handler(|q: String| async move { Ok::<_, anyhow::Error>(format!("re:{q}")) }).open()).await?;
        let ga = h.ga;
        let task = tokio::task::spawn_local(ACTOR.scope(ga, async move {
            let _ = rep.listen().await;
        }));
        tokio::time::sleep(Duration::from_millis(300)).await;
        let mut q = ACTOR.scope(h.gb, h.b.requestor(topic).with_request_encoder(StringCodec).with_reply_decoder(StringCodec).with_request_timeout(Duration::from_secs(5))?.open()).await?;
        let ans = ACTOR.scope(h.gb, q.request("ping".to_string())).await;
        if !keep_replier {
            task.abort();
            tokio::time::sleep(Duration::from_millis(300)).await;
        }
        Ok(matches!(ans, Ok(ref s) if s == "re:ping"))
    }
    .await;
    r.unwrap_or(false)
}

async fn scenario(world: Rc<World>, sc: FramesScript) -> AResult<(Vec<ActionReport>, bool, Vec<String>)> {
    world.start_server(ServerOpts::default())?;
    let backoff = BackoffStrategy::constant().with_max_attempts(3).with_step(Duration::from_millis(200));
    let ga = world.new_group();
    let gb = world.new_group();
    let gr = world.new_group();
    let w = world.clone();
    let bo = backoff.clone();
    let a = ACTOR.scope(ga, async move { w.client(bo).await }).await?;
    let w = world.clone();
    let b = ACTOR.scope(gb, async move { w.client(backoff).await }).await?;
    let h = Helpers { a, ga, b, gb };
    let (_ep, conn) = world.raw_trusted(gr, None).await?;
    let mut reports = vec![];
    let mut notes = vec![];
    for (i, act) in sc.actions.iter().enumerate() {
        let mut rep = ActionReport::default();
        let topic_s = format!("/frames/topic{i}");
        let topic = TopicName::try_from(topic_s.as_str()).map_err(|e| anyhow!("{e}"))?;
        match act.prior {
            Prior::Fresh => {}
            Prior::UsedPubSub => {
                if !use_pubsub(&h, &topic_s).await {
                    rep.notes.push("prior pub/sub use failed".into());
                }
            }
            Prior::UsedReqRep => {
                if !use_reqrep(&h, &topic_s, false).await {
                    rep.notes.push("prior request/reply use failed".into());
                }
            }
        }
        let mut stream = match raw_open(&conn, frame_of(act.first, &topic, if act.first == Kind::RegGiantInvalid { act.giant_slack as usize } else { 0 })).await {
            Ok(s) => s,
            Err(e) => {
                rep.notes.push(format!("could not open stream: {e:#}"));
                reports.push(rep);
                continue;
            }
        };
        rep.answer = Some(match next_frame(&mut stream, 5_000).await {
            Ok(Some(Frame::Ok)) => Answer::Ok,
            Ok(Some(Frame::Error(e))) => Answer::Error(e.code),
            Ok(Some(_)) => Answer::Other,
            Ok(None) => Answer::Closed,
            Err(_) => Answer::Timeout,
        });
        if rep.answer == Some(Answer::Ok) {
            // hostile frames after the registration
            for (n, k) in act.then.iter().enumerate() {
                let _ = stream.send(frame_of(*k, &topic, n + 1)).await;
            }
            let sent_hostile = !act.then.is_empty();
            // role probe: is the stream served in the role it asked for?
            if let Some(role) = role_of(act.first) {
                let mismatch = matches!((act.prior, role), (Prior::UsedPubSub, Role::Replier | Role::Requestor) | (Prior::UsedReqRep, Role::Publisher | Role::Subscriber));
                let served = match role {
                    Role::Subscriber => {
                        // a message published now must arrive on the raw stream
                        let r: AResult<bool> = async {
                            let mut p = ACTOR.scope(h.gb, h.b.publisher(&topic_s).with_encoder(StringCodec).open()).await?;
                            tokio::time::sleep(Duration::from_millis(300)).await;
                            ACTOR.scope(h.gb, p.send(format!("probe{i}"))).await?;
                            let mut seen = false;
                            for _ in 0..20 {
                                match next_frame(&mut stream, 5_000).await {
                                    Ok(Some(Frame::Message(m))) if m.message == Bytes::from(format!("probe{i}")) => {
                                        seen = true;
                                        break;
                                    }
                                    Ok(Some(Frame::Error(e))) => {
                                        rep.refused_after_ok = Some(e.code);
                                        break;
                                    }
                                    Ok(Some(_)) => continue,
                                    _ => break,
                                }
                            }
                            let _ = p.finish().await;
                            Ok(seen)
                        }
                        .await;
                        r.unwrap_or(false)
                    }
                    Role::Publisher => {
                        let r: AResult<bool> = async {
                            let mut s = ACTOR.scope(h.ga, h.a.subscriber(&topic_s).with_decoder(StringCodec).open()).await?;
                            tokio::time::sleep(Duration::from_millis(500)).await;
                            if let Some(slack) = act.at_limit_slack {
                                let big = vec![b'y'; message_len_for_slack(slack)];
                                stream.write().write_all(&hand_encode_message(&big)).await.map_err(|e| anyhow!("{e}"))?;
                            }
                            stream.send(Frame::Message(MessagePayload { headers: None, message: Bytes::from(format!("probe{i}")) })).await.map_err(|e| anyhow!("{e}"))?;
                            let mut seen = false;
                            for _ in 0..20 {
                                match tokio::time::timeout(Duration::from_secs(5), ACTOR.scope(h.ga, s.next())).await {
                                    Ok(Some(Ok(m))) if m == format!("probe{i}") => {
                                        seen = true;
                                        break;
                                    }
                                    Ok(Some(_)) => continue,
                                    _ => break,
                                }
                            }
                            Ok(seen)
                        }
                        .await;
                        r.unwrap_or(false)
                    }
                    Role::Replier => {
                        let r: AResult<bool> = async {
                            let mut q = ACTOR.scope(h.gb, h.b.requestor(&topic_s).with_request_encoder(StringCodec).with_reply_decoder(StringCodec).with_request_timeout(Duration::from_secs(4))?.open()).await?;
                            let gb = h.gb;
                            let call = tokio::task::spawn_local(ACTOR.scope(gb, async move { q.request(format!("probe{i}")).await.map_err(|e| e.to_string()) }));
                            let mut seen = false;
                            for _ in 0..20 {
                                match next_frame(&mut stream, 5_000).await {
                                    Ok(Some(Frame::Message(m))) if m.message == Bytes::from(format!("probe{i}")) => {
                                        let _ = stream.send(Frame::Message(MessagePayload { headers: m.headers.clone(), message: Bytes::from("pong") })).await;
                                        seen = true;
                                        break;
                                    }
                                    Ok(Some(Frame::Error(e))) => {
                                        rep.refused_after_ok = Some(e.code);
                                        break;
                                    }
                                    Ok(Some(_)) => continue,
                                    _ => break,
                                }
                            }
                            let _ = call.await;
                            Ok(seen)
                        }
                        .await;
                        r.unwrap_or(false)
                    }
                    Role::Requestor => {
                        let r: AResult<bool> = async {
                            let mut rp = ACTOR.scope(h.ga, h.a.replier(&topic_s).with_request_decoder(StringCodec).with_reply_encoder(StringCodec).with_handler(|q: String| async move { Ok::<_, anyhow::Error>(format!("re:{q}")) }).open()).await?;
                            let ga = h.ga;
                            let task = tokio::task::spawn_local(ACTOR.scope(ga, async move {
                                let _ = rp.listen().await;
                            }));
                            tokio::time::sleep(Duration::from_millis(500)).await;
                            let mut hd = HashMap::new();
                            hd.insert("req_id".to_string(), "424242".to_string());
                            stream.send(Frame::Message(MessagePayload { headers: Some(hd), message: Bytes::from(format!("probe{i}")) })).await.map_err(|e| anyhow!("{e}"))?;
                            let mut seen = false;
                            for _ in 0..20 {
                                match next_frame(&mut stream, 5_000).await {
                                    Ok(Some(Frame::Message(m))) if m.message == Bytes::from(format!("re:probe{i}")) => {
                                        seen = true;
                                        break;
                                    }
                                    Ok(Some(Frame::Error(e))) => {
                                        rep.refused_after_ok = Some(e.code);
                                        break;
                                    }
                                    Ok(Some(_)) => continue,
                                    _ => break,
                                }
                            }
                            task.abort();
                            Ok(seen)
                        }
                        .await;
                        r.unwrap_or(false)
                    }
                };
                // a peer that itself sent frames of the wrong kind may be dropped by a correct server
                if !sent_hostile || served {
                    rep.served = Some(served);
                }
                if mismatch {
                    rep.notes.push("role does not match the topic's existing kind".into());
                }
            }
        }
        drop(stream);
        // the topic this action touched must still be usable by well-behaved clients in its original pattern
        let usable = match (act.prior, role_of(act.first)) {
            (Prior::UsedPubSub, _) | (Prior::Fresh, Some(Role::Publisher | Role::Subscriber)) => use_pubsub(&h, &topic_s).await,
            (Prior::UsedReqRep, _) | (Prior::Fresh, Some(Role::Replier | Role::Requestor)) => use_reqrep(&h, &topic_s, false).await,
            (Prior::Fresh, None) => true,
        };
        rep.same_topic_usable = Some(usable);
        reports.push(rep);
    }
    let other_ok = use_pubsub(&h, "/frames/elsewhere").await && use_reqrep(&h, "/frames/elsewhere-rr", false).await;
    if !other_ok {
        notes.push("round trips on untouched topics failed after the hostile sequences".into());
    }
    Ok((reports, other_ok, notes))
}

pub fn execute(prop: &str, sc: &FramesScript, opts: &ExecOpts) -> Outcome {
    let mut out = Outcome::default();
    let sc2 = sc.clone();
    let res = run_world(sc.net, sc.rt_seed, Duration::from_secs(3600), move |world| scenario(world, sc2));
    let mut th = Hasher64::default();
    match res {
        Err(e) => {
            out.inconclusive = true;
            out.log.push(format!("world failed: {e:#}"));
        }
        Ok(r) => {
            fold(&mut out, prop, &r);
            match &r.value {
                None => out.violate(prop, "scenario-timeout", "hostile-frames", "the scenario did not finish within 3600 virtual seconds".into()),
                Some(Err(e)) => setup_failed(&mut out, prop, "hostile-frames", &sc.net, e),
                Some(Ok((reports, other_ok, notes))) => {
                    for (i, (act, rep)) in sc.actions.iter().zip(reports.iter()).enumerate() {
                        let sig = format!("{:?}-on-{:?}", act.first, act.prior).to_lowercase();
                        th.word(match &rep.answer {
                            Some(Answer::Ok) => 1,
                            Some(Answer::Error(c)) => 100 + *c as u64,
                            Some(Answer::Closed) => 2,
                            Some(Answer::Timeout) => 3,
                            _ => 4,
                        });
                        th.word(rep.served.map(|s| s as u64 + 1).unwrap_or(0));
                        out.fault(&format!("first_frame_{:?}", act.first).to_lowercase());
                        out.fault_n("frames_after_registration", act.then.len() as u64);
                        let is_reg = role_of(act.first).is_some() || act.first == Kind::RegGiantInvalid;
                        if act.first == Kind::RegGiantInvalid {
                            out.probe("giant_invalid_registration");
                        }
                        match (&rep.answer, rep.served, rep.refused_after_ok) {
                            (Some(Answer::Ok), Some(false), None) if act.at_limit_slack.is_some() => {
                                out.violate(
                                    prop,
                                    "peers-abandoned-after-legal-frame",
                                    &sig,
                                    format!("action {i}: a publisher sent a message whose frame payload is {} bytes short of the frame limit; the message it sent next never reached the subscriber that was listening on the topic", act.at_limit_slack.unwrap()),
                                );
                            }
                            (Some(Answer::Ok), Some(false), None) => {
                                out.violate(
                                    prop,
                                    "accepted-then-abandoned",
                                    &sig,
                                    format!("action {i}: the stream was answered Ok for {:?} on a topic in state {:?} and was then neither served in that role nor refused with an error frame ({:?})", act.first, act.prior, rep.notes),
                                );
                            }
                            (Some(Answer::Ok), Some(true), _) => out.probe("ok_streams_served"),
                            (Some(Answer::Ok), _, Some(_code)) => out.probe("refused_with_error_frame_after_ok"),
                            (Some(Answer::Error(_)), _, _) => out.probe("refused_with_error_frame"),
                            (Some(Answer::Timeout), _, _) if is_reg => {
                                out.violate(prop, "registration-unanswered", &sig, format!("action {i}: registration {:?} on a topic in state {:?} got no answer within 5 virtual seconds", act.first, act.prior));
                            }
                            (Some(Answer::Closed), _, _) if is_reg => {
                                out.violate(prop, "registration-closed-without-answer", &sig, format!("action {i}: registration {:?} on a topic in state {:?} was closed without Ok or an error frame", act.first, act.prior));
                            }
                            (Some(Answer::Closed | Answer::Timeout), _, _) => out.probe("non_registration_first_frame_closed_without_answer"),
                            _ => {}
                        }
                        if rep.same_topic_usable == Some(false) {
                            out.violate(prop, "topic-unusable-after-hostile-frames", &sig, format!("action {i} ({:?} then {:?} on {:?}): well-behaved clients could no longer complete a round trip on that topic", act.first, act.then, act.prior));
                        }
                        if act.at_limit_slack.is_some() {
                            out.fault("raw_publisher_frame_at_limit");
                        }
                        if matches!((act.prior, role_of(act.first)), (Prior::UsedPubSub, Some(Role::Replier | Role::Requestor)) | (Prior::UsedReqRep, Some(Role::Publisher | Role::Subscriber))) {
                            out.probe("role_kind_mismatch");
                        }
                        if act.then.contains(&Kind::MessageNearLimit) || act.first == Kind::MessageNearLimit {
                            out.probe("near_limit_request");
                        }
                    }
                    if !*other_ok {
                        out.violate(prop, "server-unusable-after-hostile-frames", "other-topics", format!("{notes:?}"));
                    }
                    out.nontrivial = !sc.actions.is_empty();
                    out.steps = sc.actions.len() as u64;
                    if opts.want_log {
                        for (a, r) in sc.actions.iter().zip(reports.iter()) {
                            out.log.push(format!("{a:?} -> {r:?}"));
                        }
                    }
                }
            }
            th.word(r.net_trace);
        }
    }
    out.trace_hash = th.finish();
    out.full_hash = th.finish();
    out
}

pub struct FramesFamily;
pub static HOSTILE_FRAMES: FramesFamily = FramesFamily;

impl Family for FramesFamily {
    fn name(&self) -> &'static str {
        "hostile-frames"
    }
    fn engine(&self) -> &'static str {
        "N"
    }
    fn generate(&self, _p: &str, _t: Tier, _i: u64, _n: u64, rng: &mut Rng) -> Value {
        serde_json::to_value(gen_script(rng)).unwrap()
    }
    fn execute(&self, property: &str, body: &Value, opts: &ExecOpts) -> Outcome {
        match serde_json::from_value::<FramesScript>(body.clone()) {
            Ok(sc) => execute(property, &sc, opts),
            Err(e) => {
                let mut o = Outcome::default();
                o.inconclusive = true;
                o.log.push(format!("bad script: {e}"));
                o
            }
        }
    }
    fn shrink(&self, body: &Value) -> Vec<Value> {
        let Ok(sc) = serde_json::from_value::<FramesScript>(body.clone()) else { return vec![] };
        let mut out = vec![];
        for i in 0..sc.actions.len() {
            if sc.actions.len() > 1 {
                let mut c = sc.clone();
                c.actions.remove(i);
                out.push(c);
            }
            for k in 0..sc.actions[i].then.len() {
                let mut c = sc.clone();
                c.actions[i].then.remove(k);
                out.push(c);
            }
            if sc.actions[i].at_limit_slack.is_some() {
                let mut c = sc.clone();
                c.actions[i].at_limit_slack = None;
                out.push(c);
            }
            if sc.actions[i].prior != Prior::Fresh {
                let mut c = sc.clone();
                c.actions[i].prior = Prior::Fresh;
                out.push(c);
            }
        }
        out.into_iter().map(|s| serde_json::to_value(s).unwrap()).collect()
    }
    fn watchdog_ms(&self) -> u64 {
        90_000
    }
}
