//! N-engine core: one simulated world per run — paused tokio clock, SimNet, the real server on a
//! simulated endpoint, real library clients through the endpoint-factory hook, raw peers speaking
//! quinn + MessageCodec directly, and capture of the client's tracing events.

use super::net::*;
use crate::core::Outcome;
use anyhow::{anyhow, Result};
use quinn::{ClientConfig, Endpoint, EndpointConfig, TransportConfig, VarInt};
use rustls::{Certificate, PrivateKey, RootCertStore};
use selium::keep_alive::BackoffStrategy;
use selium_protocol::{BiStream, Frame};
use selium_server::server::Server;
use selium_tools::cli::GenCertsArgs;
use selium_tools::commands::gen_certs::GenCertsRunner;
use selium_tools::traits::CommandRunner;
use std::cell::RefCell;
use std::future::Future;
use std::path::{Path, PathBuf};
use std::rc::Rc;
use std::sync::atomic::{AtomicU64, Ordering};
use std::sync::Arc;
use std::time::Duration;

tokio::task_local! {
    /// which actor (client group) the current task belongs to; read by the endpoint factory
    pub static ACTOR: u32;
}

// ---------------------------------------------------------------------------------------------
// tracing capture
// ---------------------------------------------------------------------------------------------

#[derive(Clone, Debug)]
pub struct TraceEvent {
    pub at_ms: u64,
    pub actor: Option<u32>,
    pub message: String,
    pub fields: Vec<(String, String)>,
}

thread_local! {
    static NOTIFY: Rc<tokio::sync::Notify> = Rc::new(tokio::sync::Notify::new());
    static EVENTS: RefCell<Vec<TraceEvent>> = RefCell::new(Vec::new());
    static T0: RefCell<Option<std::time::Instant>> = RefCell::new(None);
}

pub fn virtual_ms() -> u64 {
    T0.with(|t| t.borrow().map(|t0| now_std().duration_since(t0).as_millis() as u64).unwrap_or(0))
}

struct Capture {
    next_id: AtomicU64,
}

struct FieldVisitor<'a> {
    message: &'a mut String,
    fields: &'a mut Vec<(String, String)>,
}

impl<'a> tracing::field::Visit for FieldVisitor<'a> {
    fn record_debug(&mut self, field: &tracing::field::Field, value: &dyn std::fmt::Debug) {
        if field.name() == "message" {
            *self.message = format!("{value:?}");
        } else {
            self.fields.push((field.name().to_string(), format!("{value:?}")));
        }
    }
}

impl tracing::Subscriber for Capture {
    fn enabled(&self, metadata: &tracing::Metadata<'_>) -> bool {
        metadata.target().starts_with("selium") && metadata.is_event()
    }
    fn new_span(&self, _span: &tracing::span::Attributes<'_>) -> tracing::span::Id {
        tracing::span::Id::from_u64(self.next_id.fetch_add(1, Ordering::Relaxed) + 1)
    }
    fn record(&self, _span: &tracing::span::Id, _values: &tracing::span::Record<'_>) {}
    fn record_follows_from(&self, _span: &tracing::span::Id, _follows: &tracing::span::Id) {}
    fn event(&self, event: &tracing::Event<'_>) {
        let mut message = String::new();
        let mut fields = vec![];
        event.record(&mut FieldVisitor { message: &mut message, fields: &mut fields });
        let actor = ACTOR.try_with(|a| *a).ok();
        let ev = TraceEvent { at_ms: virtual_ms(), actor, message, fields };
        let _ = EVENTS.try_with(|e| e.borrow_mut().push(ev));
        let _ = NOTIFY.try_with(|n| n.notify_one());
    }
    fn enter(&self, _span: &tracing::span::Id) {}
    fn exit(&self, _span: &tracing::span::Id) {}
}

/// Signalled whenever a client tracing event is captured (or by `poke`), so scenario control
/// loops can wait for events instead of polling the virtual clock.
pub fn event_notify() -> Rc<tokio::sync::Notify> {
    NOTIFY.with(|n| n.clone())
}

pub fn poke() {
    let _ = NOTIFY.try_with(|n| n.notify_one());
}

pub fn take_events() -> Vec<TraceEvent> {
    EVENTS.with(|e| std::mem::take(&mut *e.borrow_mut()))
}

pub fn events_snapshot() -> Vec<TraceEvent> {
    EVENTS.with(|e| e.borrow().clone())
}

// ---------------------------------------------------------------------------------------------
// certificates
// ---------------------------------------------------------------------------------------------

#[derive(Clone, Debug)]
pub struct CertDir {
    pub client: PathBuf,
    pub server: PathBuf,
}

static SCRATCH_COUNTER: AtomicU64 = AtomicU64::new(0);

pub fn scratch_root() -> PathBuf {
    let base = std::env::var("VERIF_DIR").unwrap_or_else(|_| "/verif".into());
    PathBuf::from(base).join("dst/target/run").join(format!("certs-{}", std::process::id()))
}

/// A path under the scratch root that no earlier run of this process has used (code under test may
/// keep process-wide state keyed by file path; runs must stay independent of each other).
pub fn fresh_scratch(name: &str) -> PathBuf {
    let n = SCRATCH_COUNTER.fetch_add(1, Ordering::Relaxed);
    scratch_root().join(format!("{name}-{n}"))
}

/// Runs the bundled generator (selium-tools gen-certs) in-process. Keys come from the run's
/// entropy stream; `no_expiry` selects rcgen's fixed default validity so no wall clock enters.
pub fn generate_certs(tag: &str) -> Result<CertDir> {
    let n = SCRATCH_COUNTER.fetch_add(1, Ordering::Relaxed);
    let dir = scratch_root().join(format!("{tag}-{n}"));
    let client = dir.join("client");
    let server = dir.join("server");
    // the generator reports progress on stdout/stderr; stdout is the worker's protocol channel
    silenced(|| GenCertsRunner::from(GenCertsArgs { server_out_path: server.clone(), client_out_path: client.clone(), no_expiry: true }).run())?;
    Ok(CertDir { client, server })
}

/// Renewal in place: every file of an existing set is first replaced by a longer one (an older
/// set with longer encodings), then the generator runs again over the same directories.
pub fn regenerate_certs_in_place(dirs: &CertDir) -> Result<()> {
    for d in [&dirs.client, &dirs.server] {
        for e in std::fs::read_dir(d)? {
            let p = e?.path();
            if p.is_file() {
                let mut old = std::fs::read(&p)?;
                old.extend(std::iter::repeat(0xA5u8).take(700));
                std::fs::write(&p, old)?;
            }
        }
    }
    silenced(|| GenCertsRunner::from(GenCertsArgs { server_out_path: dirs.server.clone(), client_out_path: dirs.client.clone(), no_expiry: true }).run())?;
    Ok(())
}

/// PEM encoding of DER certificates (a "full chain" file as a deployment would hand to the server).
pub fn pem_chain(ders: &[Vec<u8>]) -> String {
    const T: &[u8; 64] = b"ABCDEFGHIJKLMNOPQRSTUVWXYZabcdefghijklmnopqrstuvwxyz0123456789+/";
    let mut out = String::new();
    for der in ders {
        let mut b64 = String::new();
        for c in der.chunks(3) {
            let n = (c[0] as u32) << 16 | (*c.get(1).unwrap_or(&0) as u32) << 8 | *c.get(2).unwrap_or(&0) as u32;
            b64.push(T[(n >> 18) as usize & 63] as char);
            b64.push(T[(n >> 12) as usize & 63] as char);
            b64.push(if c.len() > 1 { T[(n >> 6) as usize & 63] as char } else { '=' });
            b64.push(if c.len() > 2 { T[n as usize & 63] as char } else { '=' });
        }
        out.push_str("-----BEGIN CERTIFICATE-----\n");
        for line in b64.as_bytes().chunks(64) {
            out.push_str(std::str::from_utf8(line).unwrap());
            out.push('\n');
        }
        out.push_str("-----END CERTIFICATE-----\n");
    }
    out
}

/// Runs `f` with file descriptors 1 and 2 pointing at /dev/null.
fn silenced<T>(f: impl FnOnce() -> T) -> T {
    use std::io::Write;
    let _ = std::io::stdout().flush();
    unsafe {
        let devnull = libc::open(b"/dev/null\0".as_ptr() as *const libc::c_char, libc::O_WRONLY);
        let saved1 = libc::dup(1);
        let saved2 = libc::dup(2);
        if devnull >= 0 {
            libc::dup2(devnull, 1);
            libc::dup2(devnull, 2);
        }
        let r = f();
        let _ = std::io::stdout().flush();
        if saved1 >= 0 {
            libc::dup2(saved1, 1);
            libc::close(saved1);
        }
        if saved2 >= 0 {
            libc::dup2(saved2, 2);
            libc::close(saved2);
        }
        if devnull >= 0 {
            libc::close(devnull);
        }
        r
    }
}

pub fn read_der(p: &Path) -> Result<Vec<u8>> {
    Ok(std::fs::read(p)?)
}

// ---------------------------------------------------------------------------------------------
// the world
// ---------------------------------------------------------------------------------------------

#[derive(Clone, Copy, Debug)]
pub struct ServerOpts {
    pub idle_timeout_ms: u32,
    /// QUIC connection-level send window of the server (bytes); None = quinn default
    pub send_window: Option<u64>,
    pub stream_receive_window: Option<u32>,
}

impl Default for ServerOpts {
    fn default() -> Self {
        ServerOpts { idle_timeout_ms: 15_000, send_window: None, stream_receive_window: None }
    }
}

pub struct World {
    pub net: SimNet,
    pub certs: CertDir,
    pub server: RefCell<Option<Rc<Server>>>,
    pub server_task: RefCell<Option<tokio::task::JoinHandle<()>>>,
    pub next_group: RefCell<u32>,
}

impl World {
    pub fn new(net_cfg: NetCfg) -> Result<Rc<World>> {
        let net = SimNet::new(net_cfg);
        let certs = generate_certs("main")?;
        // the library clients of this thread build their endpoints on the simulated network
        let net2 = net.clone();
        selium::verif::set_endpoint_factory(Some(Box::new(move |_addr| {
            let group = ACTOR.try_with(|a| *a).unwrap_or(999);
            let sock = net2.bind_client(group);
            Endpoint::new_with_abstract_socket(EndpointConfig::default(), None, sock, Arc::new(SimRuntime))
        })));
        Ok(Rc::new(World { net, certs, server: RefCell::new(None), server_task: RefCell::new(None), next_group: RefCell::new(1) }))
    }

    pub fn new_group(&self) -> u32 {
        let mut g = self.next_group.borrow_mut();
        *g += 1;
        *g - 1
    }

    /// Builds the real server (real `quic::server_config`, real `Server`) on a simulated endpoint
    /// and spawns its real accept loop.
    pub fn start_server_with(&self, certs: &CertDir, opts: ServerOpts) -> Result<()> {
        self.start_server_files(&certs.server.join("ca.der"), &certs.server.join("localhost.der"), &certs.server.join("localhost.key.der"), opts)
    }

    /// As the server binary does it: `Server::try_from(UserArgs)` with the CA file, certificate
    /// (chain) file and key file given on its command line; only the endpoint's UDP socket and
    /// timer source are substituted (hook H5).
    pub fn start_server_files(&self, ca: &Path, cert: &Path, key: &Path, opts: ServerOpts) -> Result<()> {
        use clap::Parser;
        use selium_server::args::UserArgs;
        use selium_server::server::verif::set_server_endpoint_factory;
        let net = self.net.clone();
        set_server_endpoint_factory(Some(Box::new(move |mut config, _addr| {
            if opts.send_window.is_some() || opts.stream_receive_window.is_some() {
                if let Some(t) = Arc::get_mut(&mut config.transport) {
                    if let Some(w) = opts.send_window {
                        t.send_window(w);
                    }
                    if let Some(w) = opts.stream_receive_window {
                        t.stream_receive_window(VarInt::from_u32(w));
                    }
                }
            }
            let sock = net.bind_server();
            Endpoint::new_with_abstract_socket(EndpointConfig::default(), Some(config), sock, Arc::new(SimRuntime))
        })));
        let args = UserArgs::try_parse_from([
            "selium-server".to_string(),
            "--bind-addr".into(),
            server_addr().to_string(),
            "--ca".into(),
            ca.to_string_lossy().to_string(),
            "--cert".into(),
            cert.to_string_lossy().to_string(),
            "--key".into(),
            key.to_string_lossy().to_string(),
            "--max-idle-timeout".into(),
            opts.idle_timeout_ms.to_string(),
        ])
        .map_err(|e| anyhow!("server arguments: {e}"));
        let server = args.and_then(Server::try_from);
        set_server_endpoint_factory(None);
        let server = Rc::new(server?);
        *self.server.borrow_mut() = Some(server.clone());
        let local = tokio::task::spawn_local(ACTOR.scope(SERVER_GROUP, async move {
            let _ = server.listen().await;
        }));
        *self.server_task.borrow_mut() = Some(local);
        Ok(())
    }

    pub fn start_server(&self, opts: ServerOpts) -> Result<()> {
        let certs = self.certs.clone();
        self.start_server_with(&certs, opts)
    }

    /// Crash model: selium keeps no durable state, so a restart loses everything.
    pub fn stop_server(&self) {
        if let Some(t) = self.server_task.borrow_mut().take() {
            t.abort();
        }
        *self.server.borrow_mut() = None;
        // the dead process's socket goes silent; its leftover tasks see nothing but timeouts
        self.net.kill(server_addr());
    }

    /// A library client using only the public API.
    pub async fn client_with(&self, certs: &CertDir, backoff: BackoffStrategy, keep_alive_ms: u64) -> Result<selium::Client> {
        let c = selium::custom()
            .keep_alive(keep_alive_ms)?
            .backoff_strategy(backoff)
            .endpoint(&server_addr().to_string())
            .with_certificate_authority(certs.client.join("ca.der"))?
            .with_cert_and_key(certs.client.join("localhost.der"), certs.client.join("localhost.key.der"))?
            .connect()
            .await?;
        Ok(c)
    }

    pub async fn client(&self, backoff: BackoffStrategy) -> Result<selium::Client> {
        let certs = self.certs.clone();
        self.client_with(&certs, backoff, 5_000).await
    }

    /// Raw peer: a quinn endpoint + connection authenticated with the given identity.
    pub async fn raw_connect(&self, group: u32, identity: Option<(Vec<Certificate>, PrivateKey)>, roots: RootCertStore, transport: Option<TransportConfig>) -> Result<(Endpoint, quinn::Connection)> {
        let builder = rustls::ClientConfig::builder().with_safe_defaults().with_root_certificates(roots);
        let mut crypto = match identity {
            Some((certs, key)) => builder.with_client_auth_cert(certs, key)?,
            None => builder.with_no_client_auth(),
        };
        crypto.alpn_protocols = vec![b"hq-29".to_vec()];
        let mut config = ClientConfig::new(Arc::new(crypto));
        let mut t = transport.unwrap_or_default();
        t.keep_alive_interval(Some(Duration::from_secs(5)));
        config.transport_config(Arc::new(t));
        let sock = self.net.bind_client(group);
        let mut endpoint = Endpoint::new_with_abstract_socket(EndpointConfig::default(), None, sock, Arc::new(SimRuntime))?;
        endpoint.set_default_client_config(config);
        let conn = endpoint.connect(server_addr(), "localhost").map_err(|e| anyhow!("connect: {e}"))?.await.map_err(|e| anyhow!("connection: {e}"))?;
        Ok((endpoint, conn))
    }

    pub fn trusted_identity(&self, certs: &CertDir) -> Result<((Vec<Certificate>, PrivateKey), RootCertStore)> {
        let cert = Certificate(read_der(&certs.client.join("localhost.der"))?);
        let key = PrivateKey(read_der(&certs.client.join("localhost.key.der"))?);
        let mut roots = RootCertStore::empty();
        roots.add(&Certificate(read_der(&certs.client.join("ca.der"))?))?;
        Ok(((vec![cert], key), roots))
    }

    pub async fn raw_trusted(&self, group: u32, transport: Option<TransportConfig>) -> Result<(Endpoint, quinn::Connection)> {
        let certs = self.certs.clone();
        let (id, roots) = self.trusted_identity(&certs)?;
        self.raw_connect(group, Some(id), roots, transport).await
    }
}

/// A `Frame::Message` without headers, laid out by hand (independently of the library's encoder):
/// u64 BE payload length, type byte 4, bincode `None`, u64 LE message length, message.
pub fn hand_encode_message(message: &[u8]) -> Vec<u8> {
    let payload = 1 + 8 + message.len();
    let mut v = Vec::with_capacity(9 + payload);
    v.extend_from_slice(&(payload as u64).to_be_bytes());
    v.push(4);
    v.push(0);
    v.extend_from_slice(&(message.len() as u64).to_le_bytes());
    v.extend_from_slice(message);
    v
}

/// Message length that makes the frame's payload `slack` bytes short of the 1 MiB frame limit.
pub fn message_len_for_slack(slack: usize) -> usize {
    1024 * 1024 - slack - 9
}

pub async fn raw_open(conn: &quinn::Connection, first: Frame) -> Result<BiStream> {
    use futures::SinkExt;
    let mut s = BiStream::try_from_connection(conn).await.map_err(|e| anyhow!("open_bi: {e}"))?;
    s.send(first).await.map_err(|e| anyhow!("send register: {e}"))?;
    Ok(s)
}

// ---------------------------------------------------------------------------------------------
// running one simulated world
// ---------------------------------------------------------------------------------------------

pub struct RunResult<T> {
    pub value: Option<T>,
    pub events: Vec<TraceEvent>,
    pub panics: Vec<(String, String)>,
    pub virtual_ms: u64,
    pub net: NetStats,
    pub net_trace: u64,
    pub timed_out: bool,
    /// the scenario's own task panicked (a call into the code under test did)
    pub scenario_panicked: bool,
    /// yields injected at uncontended lock / channel acquisitions
    pub yields_injected: u64,
}

/// Runs `scenario` inside a fresh current-thread runtime with a paused clock. `limit` is the
/// virtual-time budget of the whole scenario.
pub fn run_world<T: 'static, F, Fut>(net_cfg: NetCfg, rng_seed: u64, limit: Duration, scenario: F) -> Result<RunResult<T>>
where
    F: FnOnce(Rc<World>) -> Fut,
    Fut: Future<Output = T> + 'static,
{
    run_world_yielding(net_cfg, rng_seed, limit, None, scenario)
}

/// As `run_world`, with the yield-injection rate given by the family instead of drawn from the seed.
pub fn run_world_yielding<T: 'static, F, Fut>(net_cfg: NetCfg, rng_seed: u64, limit: Duration, yield_ppm: Option<u32>, scenario: F) -> Result<RunResult<T>>
where
    F: FnOnce(Rc<World>) -> Fut,
    Fut: Future<Output = T> + 'static,
{
    let rt = tokio::runtime::Builder::new_current_thread()
        .enable_all()
        .start_paused(true)
        .rng_seed(tokio::runtime::RngSeed::from_bytes(&rng_seed.to_le_bytes()))
        .build()?;
    let subscriber = Capture { next_id: AtomicU64::new(0) };
    let _guard = tracing::subscriber::set_default(subscriber);
    let _ = take_events();
    let _ = crate::panics::take_all();
    let local = tokio::task::LocalSet::new();
    // seeded yield injection at tokio's synchronisation points (vendored seam, see DESIGN.md §2):
    // the rate itself is part of the swarm
    let yield_ppm = yield_ppm.unwrap_or([0u32, 20_000, 100_000, 300_000][(rng_seed >> 7) as usize % 4]);
    tokio::sim_yield::reseed(rng_seed ^ 0x51D_EC0DE, yield_ppm);
    let out = local.block_on(&rt, async move {
        T0.with(|t| *t.borrow_mut() = Some(now_std()));
        let world = World::new(net_cfg)?;
        let w2 = world.clone();
        // a panic of code under test on the scenario's own task (e.g. inside `open()`) must not
        // take the run down: it is caught here; the panic hook has recorded where it happened
        let fut = futures::FutureExt::catch_unwind(std::panic::AssertUnwindSafe(scenario(world)));
        let (value, timed_out) = match tokio::time::timeout(limit, fut).await {
            Ok(Ok(v)) => (Some(v), false),
            Ok(Err(_)) => (None, false),
            Err(_) => (None, true),
        };
        let virtual_ms = virtual_ms();
        let net = w2.net.stats();
        let net_trace = w2.net.trace_hash();
        w2.stop_server();
        let scenario_panicked = value.is_none() && !timed_out;
        Ok::<_, anyhow::Error>((value, timed_out, virtual_ms, net, net_trace, scenario_panicked))
    });
    selium::verif::set_endpoint_factory(None);
    drop(local);
    drop(rt);
    let yields_injected = tokio::sim_yield::disable();
    let (value, timed_out, virtual_ms, net, net_trace, scenario_panicked) = out?;
    let events = take_events();
    let panics = crate::panics::take_all();
    // per-run certificate scratch
    let _ = std::fs::remove_dir_all(scratch_root());
    Ok(RunResult { value, events, panics, virtual_ms, net, net_trace, timed_out, scenario_panicked, yields_injected })
}

/// Folds the generic parts of a run into an outcome (faults fired, virtual time, panics in /repo code).
/// A scenario whose own legal set-up steps failed (start the server, connect with the generated
/// certificates, register under a valid name, a first exchange) in a family that injects no
/// outage. On a network that loses nothing this cannot be blamed on the fault mix: the streams the
/// property speaks about could not even come into existence, and the run is reported under the
/// property being checked. (On the unchanged tree this never happens; with datagram loss the run
/// stays inconclusive.)
pub fn setup_failed(out: &mut Outcome, prop: &str, family: &str, net: &NetCfg, e: &anyhow::Error) {
    let text = format!("{e:#}");
    out.log.push(format!("setup error: {text}"));
    if net.loss_ppm == 0 {
        let sig: String = text.chars().filter(|c| !c.is_ascii_digit()).take(60).collect();
        out.violate(prop, "setup-failed", &format!("{family}:{sig}"), format!("a legal set-up step of the scenario failed on a network that loses nothing: {text}"));
    } else {
        out.inconclusive = true;
    }
}

pub fn fold<T>(out: &mut Outcome, prop: &str, r: &RunResult<T>) {
    out.virtual_ms += r.virtual_ms;
    out.fault_n("datagram_lost", r.net.dropped);
    out.fault_n("datagram_duplicated", r.net.duplicated);
    out.fault_n("datagram_reordered", r.net.reordered);
    out.fault_n("datagram_dropped_by_partition", r.net.partition_dropped);
    out.probe_n("datagrams_delivered", r.net.delivered);
    out.fault_n("task_yield_injected_at_lock_or_channel", r.yields_injected);
    for (loc, msg) in &r.panics {
        let in_repo = ["server/", "client/", "protocol/", "standard/", "tools/"].iter().any(|p| loc.starts_with(p));
        if in_repo {
            out.violate(prop, "panic-in-selium", &format!("panic@{loc}"), format!("a task running selium code panicked at {loc}: {msg}"));
        } else if r.scenario_panicked && !loc.starts_with("src/") && !loc.starts_with("verif:") {
            // the scenario task only calls the library's public API: a panic below it, wherever
            // the panicking line lives, was reached through selium
            out.violate(prop, "panic-under-selium-call", &format!("panic@{loc}"), format!("a call into the selium client library panicked at {loc}: {msg}"));
        } else {
            out.probe("panic_outside_selium");
            if out.log.len() < 20 {
                out.log.push(format!("panic outside selium at {loc}: {msg}"));
            }
        }
    }
}
