//! Smoke scenario: one pub/sub and one request/reply round trip through the whole stack.
//! Used as the warm-up run and as the determinism gate of the N-engine.
use super::net::NetCfg;
use super::sim::*;
use crate::core::*;
use crate::rng::Rng;
use futures::{SinkExt, StreamExt};
use selium::keep_alive::BackoffStrategy;
use selium::prelude::*;
use selium::std::codecs::StringCodec;
use serde::{Deserialize, Serialize};
use serde_json::Value;
use std::time::Duration;

#[derive(Clone, Debug, Serialize, Deserialize)]
pub struct SmokeScript {
    pub net: NetCfg,
    pub rt_seed: u64,
    pub messages: usize,
    pub requests: usize,
}

pub fn execute(prop: &str, sc: &SmokeScript, opts: &ExecOpts) -> Outcome {
    let mut out = Outcome::default();
    let sc2 = sc.clone();
    let res = run_world(sc.net, sc.rt_seed, Duration::from_secs(120), move |world| async move {
        let mut notes: Vec<String> = vec![];
        world.start_server(ServerOpts::default())?;
        let backoff = BackoffStrategy::constant().with_max_attempts(2).with_step(Duration::from_millis(500));
        let g1 = world.new_group();
        let w = world.clone();
        let b1 = backoff.clone();
        let sub_client = ACTOR.scope(g1, async move { w.client(b1).await }).await?;
        let g2 = world.new_group();
        let w = world.clone();
        let pub_client = ACTOR.scope(g2, async move { w.client(backoff).await }).await?;
        let mut subscriber = ACTOR.scope(g1, sub_client.subscriber("/acme/stocks").with_decoder(StringCodec).open()).await?;
        tokio::time::sleep(Duration::from_millis(500)).await;
        let mut publisher = ACTOR.scope(g2, pub_client.publisher("/acme/stocks").with_encoder(StringCodec).open()).await?;
        for i in 0..sc2.messages {
            ACTOR.scope(g2, publisher.send(format!("m{i}"))).await?;
        }
        let mut got = vec![];
        for _ in 0..sc2.messages {
            match tokio::time::timeout(Duration::from_secs(20), ACTOR.scope(g1, subscriber.next())).await {
                Ok(Some(Ok(m))) => got.push(m),
                other => {
                    notes.push(format!("subscriber: {:?}", other.map(|o| o.map(|r| r.map_err(|e| e.to_string())))));
                    break;
                }
            }
        }
        publisher.finish().await?;
        // request/reply
        let mut replier = ACTOR
            .scope(
                g1,
                sub_client.replier("/acme/echo").with_request_decoder(StringCodec).with_reply_encoder(StringCodec).with_handler(|req: String| async move { Ok::<_, anyhow::Error>(format!("re:{req}")) }).open(),
            )
            .await?;
        tokio::task::spawn_local(ACTOR.scope(g1, async move {
            let _ = replier.listen().await;
        }));
        let mut requestor = ACTOR.scope(g2, pub_client.requestor("/acme/echo").with_request_encoder(StringCodec).with_reply_decoder(StringCodec).with_request_timeout(Duration::from_secs(5))?.open()).await?;
        let mut replies = vec![];
        for i in 0..sc2.requests {
            match ACTOR.scope(g2, requestor.request(format!("q{i}"))).await {
                Ok(r) => replies.push(r),
                Err(e) => notes.push(format!("request {i}: {e}")),
            }
        }
        Ok::<_, anyhow::Error>((got, replies, notes))
    });
    match res {
        Err(e) => {
            out.inconclusive = true;
            out.log.push(format!("world failed to start: {e:#}"));
        }
        Ok(r) => {
            fold(&mut out, prop, &r);
            out.trace_hash = r.net_trace;
            out.full_hash = r.net_trace;
            match &r.value {
                None => out.violate(prop, "scenario-timeout", "smoke", "smoke scenario did not finish in 120 virtual seconds".into()),
                Some(Err(e)) => out.violate(prop, "scenario-error", "smoke", format!("{e:#}")),
                Some(Ok((got, replies, notes))) => {
                    let want: Vec<String> = (0..sc.messages).map(|i| format!("m{i}")).collect();
                    let want_r: Vec<String> = (0..sc.requests).map(|i| format!("re:q{i}")).collect();
                    if *got != want {
                        out.violate(prop, "pubsub-mismatch", "smoke", format!("got {got:?} notes {notes:?}"));
                    }
                    if *replies != want_r {
                        out.violate(prop, "reqrep-mismatch", "smoke", format!("got {replies:?} notes {notes:?}"));
                    }
                    out.nontrivial = true;
                }
            }
            if opts.want_log {
                out.log.push(format!("virtual_ms={} net={:?}", r.virtual_ms, r.net));
                for e in &r.events {
                    out.log.push(format!("t={} actor={:?} {} {:?}", e.at_ms, e.actor, e.message, e.fields));
                }
            }
        }
    }
    out
}

pub struct Smoke;
pub static SMOKE: Smoke = Smoke;

impl Family for Smoke {
    fn name(&self) -> &'static str {
        "n-smoke"
    }
    fn engine(&self) -> &'static str {
        "N"
    }
    fn generate(&self, _p: &str, _t: Tier, _i: u64, _n: u64, rng: &mut Rng) -> Value {
        let net = NetCfg { seed: rng.next(), loss_ppm: *rng.pick(&[0u32, 0, 10_000, 30_000]), dup_ppm: *rng.pick(&[0u32, 0, 10_000]), min_delay_ms: rng.range(1, 20) as u32, jitter_ms: *rng.pick(&[0u32, 0, 5, 30]) };
        serde_json::to_value(SmokeScript { net, rt_seed: rng.next(), messages: rng.usize(1, 8), requests: rng.usize(1, 5) }).unwrap()
    }
    fn execute(&self, property: &str, body: &Value, opts: &ExecOpts) -> Outcome {
        match serde_json::from_value::<SmokeScript>(body.clone()) {
            Ok(sc) => execute(property, &sc, opts),
            Err(e) => {
                let mut o = Outcome::default();
                o.inconclusive = true;
                o.log.push(format!("bad script: {e}"));
                o
            }
        }
    }
    fn shrink(&self, _body: &Value) -> Vec<Value> {
        vec![]
    }
    fn watchdog_ms(&self) -> u64 {
        60_000
    }
}
