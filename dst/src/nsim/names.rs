//! C07 — topic names: grammar, reserved namespace, server-side enforcement for peers that bypass
//! the library, isolation of similar names used concurrently.

use super::net::NetCfg;
use super::sim::*;
use crate::core::*;
use crate::rng::{Hasher64, Rng};
use anyhow::Result as AResult;
use futures::{SinkExt, StreamExt};
use selium::keep_alive::BackoffStrategy;
use selium::prelude::*;
use selium::std::codecs::StringCodec;
use selium_protocol::error_codes::INVALID_TOPIC_NAME;
use selium_protocol::{Frame, PublisherPayload, ReplierPayload, RequestorPayload, SubscriberPayload, TopicName};
use serde::{Deserialize, Serialize};
use serde_json::Value;
use std::panic::{catch_unwind, AssertUnwindSafe};
use std::rc::Rc;
use std::time::Duration;

#[derive(Clone, Debug, Serialize, Deserialize)]
pub struct NameCase {
    /// the string handed to the library builders and to TopicName::try_from
    pub string: String,
    /// the (namespace, topic) pair a raw peer puts on the wire unchecked
    pub ns: String,
    pub topic: String,
}

#[derive(Clone, Debug, Serialize, Deserialize)]
pub struct NamesScript {
    pub net: NetCfg,
    pub rt_seed: u64,
    pub cases: Vec<NameCase>,
    /// pairs of distinct valid names used concurrently
    pub isolation: Vec<(String, String)>,
    /// additionally: a violating name so long that its registration frame comes within this many
    /// bytes of the 1 MiB frame limit (the refusal must still arrive)
    #[serde(default)]
    pub giant_slack: Option<u32>,
}

const OK_CHARS: &[char] = &['a', 'Z', '0', '9', '_', '-', 'q', 'M'];
const BAD_ASCII: &[char] = &[' ', '!', '.', '/', '\\', '#', '\0', '\n', '~', '+', ':'];
const NON_ASCII: &[char] = &['é', 'ß', 'λ', '中', '🦀', '\u{0301}'];

fn comp_ascii_valid(s: &str) -> bool {
    let n = s.chars().count();
    (3..=64).contains(&n) && s.chars().all(|c| c.is_ascii_alphanumeric() || c == '_' || c == '-')
}

/// The property's rule for a (namespace, topic) pair — only meaningful for all-ASCII input.
pub fn pair_valid(ns: &str, topic: &str) -> bool {
    comp_ascii_valid(ns) && comp_ascii_valid(topic) && !ns.starts_with("selium")
}

/// The property's rule for a topic string.
pub fn string_valid(s: &str) -> bool {
    let Some(rest) = s.strip_prefix('/') else { return false };
    let mut it = rest.splitn(2, '/');
    let (Some(ns), Some(topic)) = (it.next(), it.next()) else { return false };
    !topic.contains('/') && pair_valid(ns, topic)
}

fn gen_component(rng: &mut Rng) -> String {
    let len = *rng.pick(&[0usize, 1, 2, 3, 3, 4, 5, 8, 20, 63, 64, 64, 65, 66, 300]);
    let mut s: String = (0..len).map(|_| *rng.pick(OK_CHARS)).collect();
    match rng.below(10) {
        0 => {
            // a bad ASCII character somewhere
            let c = *rng.pick(BAD_ASCII);
            let at = if s.is_empty() { 0 } else { rng.usize(0, s.chars().count()) };
            let idx = s.char_indices().nth(at).map(|x| x.0).unwrap_or(s.len());
            s.insert(idx, c);
        }
        1 => {
            // a non-ASCII character first / middle / last
            let c = *rng.pick(NON_ASCII);
            let n = s.chars().count();
            let at = *rng.pick(&[0usize, n / 2, n]);
            let idx = s.char_indices().nth(at).map(|x| x.0).unwrap_or(s.len());
            s.insert(idx, c);
        }
        3 => {
            // a component made of non-ASCII letters only (characters vs bytes)
            let n = *rng.pick(&[2usize, 3, 10, 33, 63, 64, 65]);
            let c = *rng.pick(&['é', 'ß', 'λ', '中']);
            s = std::iter::repeat(c).take(n).collect();
        }
        2 => {
            // the reserved word: as prefix / exact / inside
            match rng.below(4) {
                0 => s = format!("selium{s}"),
                1 => s = "selium".into(),
                2 => s = format!("x{s}selium"),
                _ => s = format!("Selium{s}"),
            }
        }
        _ => {}
    }
    s
}

pub fn gen_case(rng: &mut Rng) -> NameCase {
    let ns = gen_component(rng);
    let topic = gen_component(rng);
    let string = match rng.below(12) {
        0 => format!("{ns}/{topic}"),          // missing leading slash
        1 => format!("/{ns}/{topic}/extra"),   // extra component
        2 => format!("/{ns}"),                 // one component
        3 => format!("//{ns}/{topic}"),        // empty namespace
        4 => format!("/{ns}/{topic}/"),        // trailing slash
        5 => String::new(),
        6 => format!("{}{}", rng.pick(NON_ASCII), format!("{ns}/{topic}")), // multi-byte first character
        // blanks around an otherwise well-formed string (ASCII and Unicode white space)
        7 => format!("{}/{ns}/{topic}", rng.pick(&[' ', '\n', '\t', '\u{a0}', '\u{2003}'])),
        8 => format!("/{ns}/{topic}{}", rng.pick(&[' ', '\n', '\t', '\r', '\u{a0}', '\u{2003}'])),
        _ => format!("/{ns}/{topic}"),
    };
    NameCase { string, ns, topic }
}

fn valid_name(rng: &mut Rng, len_ns: usize, len_topic: usize) -> (String, String) {
    let mk = |rng: &mut Rng, n: usize| -> String { (0..n).map(|_| *rng.pick(&['a', 'b', 'c', 'd', '0', '_', '-'])).collect() };
    let mut ns = mk(rng, len_ns);
    if ns.starts_with("selium") {
        ns.replace_range(0..1, "x");
    }
    (ns, mk(rng, len_topic))
}

pub fn gen_script(rng: &mut Rng) -> NamesScript {
    let cases = (0..rng.usize(20, 40)).map(|_| gen_case(rng)).collect();
    let mut isolation = vec![];
    for _ in 0..rng.usize(1, 2) {
        let (l1, l2) = (rng.usize(4, 10), rng.usize(4, 10));
        let (ns, topic) = valid_name(rng, l1, l2);
        let a = format!("/{ns}/{topic}");
        let b = match rng.below(5) {
            // same topic component, namespace differing in one character
            3 | 4 => {
                let mut n: Vec<char> = ns.chars().collect();
                let i = rng.usize(0, n.len() - 1);
                n[i] = if n[i] == 'z' { 'y' } else { 'z' };
                format!("/{}/{topic}", n.into_iter().collect::<String>())
            }
            // move one character from the topic to the namespace
            0 => {
                let (h, t) = topic.split_at(1);
                format!("/{ns}{h}/{t}")
            }
            // differ in one character
            1 => {
                let mut t: Vec<char> = topic.chars().collect();
                let i = rng.usize(0, t.len() - 1);
                t[i] = if t[i] == 'z' { 'y' } else { 'z' };
                format!("/{ns}/{}", t.into_iter().collect::<String>())
            }
            // swap components
            _ => format!("/{topic}/{ns}"),
        };
        if a != b && string_valid(&a) && string_valid(&b) {
            isolation.push((a, b));
        }
    }
    let giant_slack = if rng.chance(1, 8) { Some(*rng.pick(&[0u32, 1, 2, 16, 17, 18, 19, 40, 64, 200, 5_000])) } else { None };
    NamesScript { net: NetCfg::calm(rng.next()), rt_seed: rng.next(), cases, isolation, giant_slack }
}

#[derive(Debug, Clone, PartialEq)]
pub enum First {
    Ok,
    Error(u32),
    /// refused with an error frame, and then more frames arrived on the same stream
    ErrorThenMore(u32, String),
    Closed,
    Timeout,
    OtherFrame,
    SendFailed,
}

#[derive(Debug, Default, Clone)]
pub struct CaseReport {
    /// first frame for raw RegisterPublisher / Subscriber / Replier / Requestor
    pub raw: Vec<First>,
    /// library open() per role: Ok(()) / Err(text) / Panic
    pub lib: Vec<Result<(), String>>,
    pub try_from: Option<Result<String, String>>,
    pub create: Option<Result<String, String>>,
    pub pure_panics: Vec<String>,
}

async fn first_frame(conn: &quinn::Connection, frame: Frame) -> First {
    let mut s = match raw_open(conn, frame).await {
        Ok(s) => s,
        Err(_) => return First::SendFailed,
    };
    match tokio::time::timeout(Duration::from_secs(5), s.next()).await {
        Ok(Some(Ok(Frame::Ok))) => First::Ok,
        Ok(Some(Ok(Frame::Error(e)))) => {
            // a refusal is final: the stream must not go on to be served
            match tokio::time::timeout(Duration::from_millis(300), s.next()).await {
                Ok(Some(Ok(f))) => First::ErrorThenMore(e.code, format!("{f:?}").chars().take(40).collect()),
                _ => First::Error(e.code),
            }
        }
        Ok(Some(Ok(_))) => First::OtherFrame,
        Ok(Some(Err(_))) | Ok(None) => First::Closed,
        Err(_) => First::Timeout,
    }
}

async fn lib_open(client: &selium::Client, group: u32, role: usize, name: String) -> Result<(), String> {
    let c = client.clone();
    let h = tokio::task::spawn_local(ACTOR.scope(group, async move {
        match role {
            0 => c.publisher(&name).with_encoder(StringCodec).open().await.map(|_| ()),
            1 => c.subscriber(&name).with_decoder(StringCodec).open().await.map(|_| ()),
            2 => c.replier(&name).with_request_decoder(StringCodec).with_reply_encoder(StringCodec).with_handler(|r: String| async move { Ok::<_, anyhow::Error>(r) }).open().await.map(|_| ()),
            _ => c.requestor(&name).with_request_encoder(StringCodec).with_reply_decoder(StringCodec).open().await.map(|_| ()),
        }
    }));
    match tokio::time::timeout(Duration::from_secs(20), h).await {
        Ok(Ok(Ok(()))) => Ok(()),
        Ok(Ok(Err(e))) => Err(e.to_string()),
        Ok(Err(j)) => Err(if j.is_panic() { "PANIC".into() } else { format!("join: {j}") }),
        Err(_) => Err("TIMEOUT".into()),
    }
}

async fn scenario(world: Rc<World>, sc: NamesScript) -> AResult<(Vec<CaseReport>, Vec<String>)> {
    let mut reports: Vec<CaseReport> = sc.cases.iter().map(|_| CaseReport::default()).collect();
    let mut notes = vec![];
    // pure functions first (no server involved)
    for (i, c) in sc.cases.iter().enumerate() {
        let s = c.string.clone();
        match catch_unwind(AssertUnwindSafe(|| TopicName::try_from(s.as_str()).map(|t| t.to_string()).map_err(|e| e.to_string()))) {
            Ok(r) => reports[i].try_from = Some(r),
            Err(_) => {
                let p = crate::panics::take_all();
                reports[i].pure_panics.push(format!("TopicName::try_from: {:?}", p.first()));
            }
        }
        let (ns, t) = (c.ns.clone(), c.topic.clone());
        match catch_unwind(AssertUnwindSafe(|| TopicName::create(&ns, &t).map(|t| t.to_string()).map_err(|e| e.to_string()))) {
            Ok(r) => reports[i].create = Some(r),
            Err(_) => {
                let p = crate::panics::take_all();
                reports[i].pure_panics.push(format!("TopicName::create: {:?}", p.first()));
            }
        }
    }
    let backoff = BackoffStrategy::constant().with_max_attempts(0);
    // two phases with a fresh server each, so pub/sub and request/reply roles never meet on one name
    for phase in 0..2 {
        world.start_server(ServerOpts::default())?;
        let g = world.new_group();
        let gl = world.new_group();
        let (_ep, conn) = world.raw_trusted(g, None).await?;
        let w = world.clone();
        let b = backoff.clone();
        let client = ACTOR.scope(gl, async move { w.client(b).await }).await?;
        for (i, c) in sc.cases.iter().enumerate() {
            let topic = TopicName::_create_unchecked(&c.ns, &c.topic);
            let frames = if phase == 0 {
                vec![
                    Frame::RegisterPublisher(PublisherPayload { topic: topic.clone(), retention_policy: 0, operations: vec![] }),
                    Frame::RegisterSubscriber(SubscriberPayload { topic: topic.clone(), retention_policy: 0, operations: vec![] }),
                ]
            } else {
                vec![Frame::RegisterReplier(ReplierPayload { topic: topic.clone() }), Frame::RegisterRequestor(RequestorPayload { topic: topic.clone() })]
            };
            for f in frames {
                reports[i].raw.push(first_frame(&conn, f).await);
            }
            for role in 0..2 {
                reports[i].lib.push(lib_open(&client, gl, phase * 2 + role, c.string.clone()).await);
            }
        }
        // the same violating names again on the same server, in a role of the *other* messaging
        // pattern: a refused registration has created nothing, so the answer is the same refusal
        // (not a complaint about the kind of a topic that was never to exist)
        for c in sc.cases.iter() {
            if !(c.ns.is_ascii() && c.topic.is_ascii()) || pair_valid(&c.ns, &c.topic) {
                continue;
            }
            let topic = TopicName::_create_unchecked(&c.ns, &c.topic);
            let f = if phase == 0 { Frame::RegisterRequestor(RequestorPayload { topic }) } else { Frame::RegisterSubscriber(SubscriberPayload { topic, retention_policy: 0, operations: vec![] }) };
            let first = first_frame(&conn, f).await;
            let first = match first {
                First::ErrorThenMore(code, _) => First::Error(code),
                other => other,
            };
            if first != First::Error(INVALID_TOPIC_NAME) {
                notes.push(format!("CROSS ({:?}, {:?}) violates the rule and was refused; registered again in a role of the other messaging pattern it was answered {first:?} instead of Error{{INVALID_TOPIC_NAME}}", c.ns.chars().take(24).collect::<String>(), c.topic.chars().take(24).collect::<String>()));
            }
        }
        // a violating name whose registration frame (just) fits into the frame limit
        if let Some(slack) = sc.giant_slack {
            const MAX: usize = 1_048_576;
            for role in 0..2usize {
                // payload = two length-prefixed strings (+ retention and the operation count for pub/sub)
                let overhead = 8 + 8 + 3 + if phase == 0 { 16 } else { 0 };
                let len = MAX - overhead - slack as usize;
                let topic = TopicName::_create_unchecked(&"a".repeat(len), "abc");
                let f = match (phase, role) {
                    (0, 0) => Frame::RegisterPublisher(PublisherPayload { topic, retention_policy: 0, operations: vec![] }),
                    (0, _) => Frame::RegisterSubscriber(SubscriberPayload { topic, retention_policy: 0, operations: vec![] }),
                    (_, 0) => Frame::RegisterReplier(ReplierPayload { topic }),
                    _ => Frame::RegisterRequestor(RequestorPayload { topic }),
                };
                let first = first_frame(&conn, f).await;
                if first != First::Error(selium_protocol::error_codes::INVALID_TOPIC_NAME) {
                    notes.push(format!("GIANT role {}: a registration whose namespace has {len} characters ({slack} bytes below the frame limit) was answered {first:?} instead of Error{{INVALID_TOPIC_NAME}}", phase * 2 + role));
                }
            }
        }
        // isolation of similar names (phase 0: pub/sub, phase 1: request/reply)
        for (a, b) in &sc.isolation {
            if phase == 0 {
                let mut sa = ACTOR.scope(gl, client.subscriber(a).with_decoder(StringCodec).open()).await?;
                let mut sb = ACTOR.scope(gl, client.subscriber(b).with_decoder(StringCodec).open()).await?;
                tokio::time::sleep(Duration::from_millis(500)).await;
                let mut pa = ACTOR.scope(gl, client.publisher(a).with_encoder(StringCodec).open()).await?;
                let mut pb = ACTOR.scope(gl, client.publisher(b).with_encoder(StringCodec).open()).await?;
                for k in 0..3 {
                    pa.send(format!("A{k}")).await?;
                    pb.send(format!("B{k}")).await?;
                }
                let mut ga = vec![];
                let mut gb = vec![];
                for _ in 0..4 {
                    if let Ok(Some(Ok(m))) = tokio::time::timeout(Duration::from_secs(3), sa.next()).await {
                        ga.push(m);
                    }
                    if let Ok(Some(Ok(m))) = tokio::time::timeout(Duration::from_secs(3), sb.next()).await {
                        gb.push(m);
                    }
                }
                if ga != vec!["A0", "A1", "A2"] || gb != vec!["B0", "B1", "B2"] {
                    notes.push(format!("ISOLATION pubsub {a} vs {b}: subscriber of the first got {ga:?}, of the second {gb:?}"));
                }
                let _ = pa.finish().await;
                let _ = pb.finish().await;
            } else {
                for (name, tag) in [(a, "A"), (b, "B")] {
                    let t = tag.to_string();
                    let mut r = ACTOR
                        .scope(gl, client.replier(name).with_request_decoder(StringCodec).with_reply_encoder(StringCodec).with_handler(move |q: String| { let t = t.clone(); async move { Ok::<_, anyhow::Error>(format!("{t}:{q}")) } }).open())
                        .await?;
                    tokio::task::spawn_local(ACTOR.scope(gl, async move {
                        let _ = r.listen().await;
                    }));
                }
                tokio::time::sleep(Duration::from_millis(500)).await;
                for (name, tag) in [(a, "A"), (b, "B")] {
                    let mut q = ACTOR.scope(gl, client.requestor(name).with_request_encoder(StringCodec).with_reply_decoder(StringCodec).with_request_timeout(Duration::from_secs(3))?.open()).await?;
                    let r = ACTOR.scope(gl, q.request("x".to_string())).await;
                    if r.as_deref().ok() != Some(&format!("{tag}:x")[..]) {
                        notes.push(format!("ISOLATION reqrep {a} vs {b}: request on {name} answered {:?}", r.map_err(|e| e.to_string())));
                    }
                }
            }
        }
        drop(client);
        drop(conn);
        world.stop_server();
        tokio::time::sleep(Duration::from_millis(100)).await;
    }
    Ok((reports, notes))
}

pub fn execute(prop: &str, sc: &NamesScript, opts: &ExecOpts) -> Outcome {
    let mut out = Outcome::default();
    let sc2 = sc.clone();
    let res = run_world(sc.net, sc.rt_seed, Duration::from_secs(3600), move |world| scenario(world, sc2));
    let mut th = Hasher64::default();
    match res {
        Err(e) => {
            out.inconclusive = true;
            out.log.push(format!("world failed: {e:#}"));
        }
        Ok(r) => {
            // panics inside spawned tasks are judged below through their observable effect too
            fold(&mut out, prop, &r);
            match &r.value {
                None => out.violate(prop, "scenario-timeout", "names", "the name scenario did not finish".into()),
                Some(Err(e)) => setup_failed(&mut out, prop, "names", &sc.net, e),
                Some(Ok((reports, notes))) => {
                    for n in notes {
                        if n.starts_with("ISOLATION") {
                            out.violate(prop, "names-share-traffic", "isolation", n.clone());
                        }
                        if n.starts_with("CROSS") {
                            out.violate(prop, "invalid-name-not-refused-by-server", "server:second-registration-other-pattern", n.clone());
                        }
                        if n.starts_with("GIANT") {
                            out.violate(prop, "invalid-name-not-refused-by-server", "server:giant-name", n.clone());
                        }
                    }
                    out.probe_n("isolation_pairs", sc.isolation.len() as u64);
                    for (c, rep) in sc.cases.iter().zip(reports.iter()) {
                        let ascii = c.string.is_ascii() && c.ns.is_ascii() && c.topic.is_ascii();
                        let show = |s: &str| -> String { format!("{:?}", s.chars().take(24).collect::<String>()) + if s.chars().count() > 24 { "..." } else { "" } };
                        for p in &rep.pure_panics {
                            out.violate(prop, "panic-on-name", "pure", format!("{p} on input {}", show(&c.string)));
                        }
                        th.word(rep.raw.len() as u64);
                        // --- server side (pair) ---
                        let pv = pair_valid(&c.ns, &c.topic);
                        for (ri, f) in rep.raw.iter().enumerate() {
                            if let First::ErrorThenMore(code, more) = f {
                                out.violate(prop, "refused-then-served", "server", format!("role {ri}: ({}, {}) was refused with error code {code} and then the server sent {more} on the same stream", show(&c.ns), show(&c.topic)));
                            }
                            th.word(match f {
                                First::Ok => 1,
                                First::Error(_) => 2,
                                _ => 3,
                            });
                            let f = &match f {
                                First::ErrorThenMore(code, _) => First::Error(*code),
                                other => other.clone(),
                            };
                            if ascii {
                                if pv && *f != First::Ok {
                                    out.violate(prop, "valid-name-refused-by-server", "server", format!("role {ri}: ({}, {}) is valid, the server answered {f:?}", show(&c.ns), show(&c.topic)));
                                }
                                if !pv && *f != First::Error(INVALID_TOPIC_NAME) {
                                    out.violate(
                                        prop,
                                        "invalid-name-not-refused-by-server",
                                        &format!("server:{}", match f { First::Ok => "accepted", First::Error(_) => "other-code", _ => "no-answer" }),
                                        format!("role {ri}: ({}, {}) violates the rule, the server answered {f:?} instead of Error{{INVALID_TOPIC_NAME}}", show(&c.ns), show(&c.topic)),
                                    );
                                }
                            } else if !matches!(f, First::Ok | First::Error(_)) {
                                out.violate(prop, "no-answer-to-registration", "server-non-ascii", format!("role {ri}: ({}, {}) got {f:?}", show(&c.ns), show(&c.topic)));
                            }
                        }
                        // --- library side (string) ---
                        let sv = string_valid(&c.string);
                        let tf_ok = matches!(rep.try_from, Some(Ok(_)));
                        // the server applies the same rule as the parser: for a canonical string
                        // "/ns/topic" both must give the same verdict on any input, ASCII or not
                        let canonical = c.string == format!("/{}/{}", c.ns, c.topic) && !c.ns.contains('/') && !c.topic.contains('/');
                        if canonical && rep.try_from.is_some() {
                            for (ri, f) in rep.raw.iter().enumerate() {
                                let server_ok = matches!(f, First::Ok);
                                let server_refused = matches!(f, First::Error(_) | First::ErrorThenMore(..));
                                if (server_ok && !tf_ok) || (server_refused && tf_ok) {
                                    out.violate(prop, "server-and-parser-disagree", if tf_ok { "parser-accepts" } else { "server-accepts" }, format!("role {ri}: TopicName::try_from({}) = {:?} but the server answered {f:?} to the same name", show(&c.string), rep.try_from.as_ref().map(|r| r.is_ok())));
                                    break;
                                }
                            }
                            let cv = matches!(rep.create, Some(Ok(_)));
                            if rep.create.is_some() && cv != tf_ok {
                                out.violate(prop, "create-and-parser-disagree", if tf_ok { "parser-accepts" } else { "create-accepts" }, format!("TopicName::create({}, {}) ok={cv} but try_from of the printed form ok={tf_ok}", show(&c.ns), show(&c.topic)));
                            }
                        }
                        if ascii {
                            if sv != tf_ok && rep.try_from.is_some() {
                                out.violate(prop, "grammar-mismatch", if sv { "valid-rejected" } else { "invalid-accepted" }, format!("TopicName::try_from({}) = {:?}, the rule says {}", show(&c.string), rep.try_from, if sv { "valid" } else { "invalid" }));
                            }
                            if let Some(Ok(printed)) = &rep.try_from {
                                if *printed != c.string {
                                    out.violate(prop, "no-roundtrip", "display", format!("{} prints back as {}", show(&c.string), show(printed)));
                                }
                            }
                            let cv = matches!(rep.create, Some(Ok(_)));
                            if cv != pv && rep.create.is_some() {
                                out.violate(prop, "grammar-mismatch", if pv { "create-valid-rejected" } else { "create-invalid-accepted" }, format!("TopicName::create({}, {}) = {:?}", show(&c.ns), show(&c.topic), rep.create));
                            }
                        } else if let Some(Ok(printed)) = &rep.try_from {
                            if *printed != c.string {
                                out.violate(prop, "no-roundtrip", "display-non-ascii", format!("{} prints back as {}", show(&c.string), show(printed)));
                            }
                        }
                        for (ri, l) in rep.lib.iter().enumerate() {
                            match l {
                                Err(e) if e == "PANIC" => out.violate(prop, "panic-on-name", "library-open", format!("role {ri}: open() on {} panicked", show(&c.string))),
                                Err(e) if e == "TIMEOUT" => out.violate(prop, "open-hangs", "library-open", format!("role {ri}: open() on {} did not return", show(&c.string))),
                                Ok(()) => {
                                    if ascii && !sv {
                                        out.violate(prop, "invalid-name-accepted-by-library", "library-open", format!("role {ri}: open() on {} succeeded", show(&c.string)));
                                    }
                                    if !tf_ok && rep.try_from.is_some() {
                                        out.violate(prop, "library-and-parser-disagree", "library-open", format!("role {ri}: open() accepted {} which TopicName::try_from rejects", show(&c.string)));
                                    }
                                }
                                Err(e) => {
                                    if ascii && sv {
                                        out.violate(prop, "valid-name-refused-by-library", "library-open", format!("role {ri}: open() on {} failed: {e}", show(&c.string)));
                                    }
                                }
                            }
                        }
                        if !ascii {
                            out.probe("non_ascii_names");
                        }
                        if !c.string.is_empty() && !c.string.is_char_boundary(1) {
                            out.probe("multi_byte_first_character");
                        }
                        if pv {
                            out.probe("valid_pairs");
                        }
                        for comp in [&c.ns, &c.topic] {
                            let n = comp.chars().count();
                            if n == 2 || n == 3 || n == 64 || n == 65 {
                                out.probe("boundary_lengths");
                            }
                        }
                    }
                    out.nontrivial = sc.cases.len() >= 2;
                    out.steps = sc.cases.len() as u64;
                    if opts.want_log {
                        for (c, rep) in sc.cases.iter().zip(reports.iter()) {
                            out.log.push(format!("{:?} ({:?},{:?}) raw {:?} lib {:?} try_from {:?}", c.string.chars().take(30).collect::<String>(), c.ns.chars().take(12).collect::<String>(), c.topic.chars().take(12).collect::<String>(), rep.raw, rep.lib, rep.try_from));
                        }
                    }
                }
            }
            th.word(r.net_trace);
        }
    }
    out.trace_hash = th.finish();
    out.full_hash = th.finish();
    out
}

pub struct NamesFamily;
pub static NAMES: NamesFamily = NamesFamily;

impl Family for NamesFamily {
    fn name(&self) -> &'static str {
        "names"
    }
    fn engine(&self) -> &'static str {
        "N"
    }
    fn generate(&self, _p: &str, _t: Tier, _i: u64, _n: u64, rng: &mut Rng) -> Value {
        serde_json::to_value(gen_script(rng)).unwrap()
    }
    fn execute(&self, property: &str, body: &Value, opts: &ExecOpts) -> Outcome {
        match serde_json::from_value::<NamesScript>(body.clone()) {
            Ok(sc) => execute(property, &sc, opts),
            Err(e) => {
                let mut o = Outcome::default();
                o.inconclusive = true;
                o.log.push(format!("bad script: {e}"));
                o
            }
        }
    }
    fn shrink(&self, body: &Value) -> Vec<Value> {
        let Ok(sc) = serde_json::from_value::<NamesScript>(body.clone()) else { return vec![] };
        let mut out = vec![];
        let n = sc.cases.len();
        let mut chunk = n / 2;
        while chunk >= 1 {
            let mut i = 0;
            while i + chunk <= n {
                let mut c = sc.clone();
                c.cases.drain(i..i + chunk);
                out.push(c);
                i += chunk;
            }
            chunk /= 2;
        }
        for i in 0..sc.isolation.len() {
            let mut c = sc.clone();
            c.isolation.remove(i);
            out.push(c);
        }
        out.into_iter().map(|s| serde_json::to_value(s).unwrap()).collect()
    }
    fn watchdog_ms(&self) -> u64 {
        90_000
    }
}
