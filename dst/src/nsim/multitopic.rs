//! C01 (N part) — several topics whose names share a namespace or a topic component, used
//! concurrently through the whole stack: every subscriber receives exactly its own topic's
//! messages, each once, in every publisher's order, and nothing from any other topic. This is what
//! covers the `TopicName`-keyed map in `server.rs`.

use super::e2e::mild_net;
use super::net::NetCfg;
use super::sim::*;
use crate::core::*;
use crate::rng::{Hasher64, Rng};
use anyhow::Result as AResult;
use futures::{SinkExt, StreamExt};
use selium::keep_alive::BackoffStrategy;
use selium::prelude::*;
use selium::std::codecs::StringCodec;
use serde::{Deserialize, Serialize};
use serde_json::Value;
use std::cell::RefCell;
use std::rc::Rc;
use std::time::Duration;

#[derive(Clone, Debug, Serialize, Deserialize)]
pub struct TopicSpec {
    pub name: String,
    pub n_pubs: usize,
    pub n_subs: usize,
    pub msgs_per_pub: usize,
}

#[derive(Clone, Debug, Serialize, Deserialize)]
pub struct MtScript {
    pub net: NetCfg,
    pub rt_seed: u64,
    pub topics: Vec<TopicSpec>,
    pub gap_ms: u64,
    /// messages are padded to this many bytes (frames larger than a datagram reach the server's
    /// frame decoder in several reads)
    #[serde(default)]
    pub msg_size: usize,
    /// a further publisher on topic 0 that is not this library (its frames are laid out by hand):
    /// it sends one message whose frame payload is this many bytes short of the frame limit,
    /// then a small one
    #[serde(default)]
    pub raw_limit_slack: Option<usize>,
    /// the publisher that lays out its own frames (present with this flag even without a frame at
    /// the limit) does not wait for the registration answer: registration and both messages leave
    /// in one write
    #[serde(default)]
    pub raw_pipelined: bool,
}

pub fn gen_script(rng: &mut Rng) -> MtScript {
    let names: Vec<String> = match rng.below(4) {
        0 => vec!["/acme/stocks".into(), "/acme/stocks2".into(), "/acme2/stocks".into()],
        1 => vec!["/abc/def".into(), "/abcd/ef0".into(), "/def/abc".into()],
        2 => vec!["/shared/left".into(), "/shared/right".into(), "/other/left".into()],
        _ => vec!["/t_t/t-t".into(), "/t-t/t_t".into(), "/T_T/t-t".into()],
    };
    let n = rng.usize(2, 3);
    let topics = names.into_iter().take(n).map(|name| TopicSpec { name, n_pubs: rng.usize(1, 2), n_subs: rng.usize(1, 2), msgs_per_pub: rng.usize(1, 12) }).collect();
    let raw_limit_slack = if rng.chance(1, 5) { Some(*rng.pick(&[0usize, 0, 1, 3, 7, 8, 9, 16, 100])) } else { None };
    let mut net = mild_net(rng);
    if raw_limit_slack.is_some() {
        net.loss_ppm = 0;
    }
    MtScript { net, rt_seed: rng.next(), topics, gap_ms: *rng.pick(&[0u64, 0, 1, 20]), msg_size: *rng.pick(&[0usize, 0, 900, 1_500, 5_000, 40_000]), raw_limit_slack, raw_pipelined: rng.chance(1, 5) }
}

type Received = Rc<RefCell<Vec<String>>>;

async fn scenario(world: Rc<World>, sc: MtScript) -> AResult<Vec<(usize, Vec<String>)>> {
    world.start_server(ServerOpts::default())?;
    let backoff = BackoffStrategy::constant().with_max_attempts(0);
    let gs = world.new_group();
    let gp = world.new_group();
    let w = world.clone();
    let b = backoff.clone();
    let subc = ACTOR.scope(gs, async move { w.client(b).await }).await?;
    let w = world.clone();
    let pubc = ACTOR.scope(gp, async move { w.client(backoff).await }).await?;
    let mut lists: Vec<(usize, Received)> = vec![];
    for (ti, t) in sc.topics.iter().enumerate() {
        for _ in 0..t.n_subs {
            let mut s = ACTOR.scope(gs, subc.subscriber(&t.name).with_decoder(StringCodec).open()).await?;
            let got: Received = Rc::new(RefCell::new(vec![]));
            let g2 = got.clone();
            tokio::task::spawn_local(ACTOR.scope(gs, async move {
                while let Some(Ok(m)) = s.next().await {
                    g2.borrow_mut().push(m);
                }
            }));
            lists.push((ti, got));
        }
    }
    tokio::time::sleep(Duration::from_millis(1000)).await;
    let mut tasks = vec![];
    for (ti, t) in sc.topics.iter().enumerate() {
        for p in 0..t.n_pubs {
            let mut publisher = ACTOR.scope(gp, pubc.publisher(&t.name).with_encoder(StringCodec).open()).await?;
            let n = t.msgs_per_pub;
            let gap = sc.gap_ms;
            let size = sc.msg_size;
            tasks.push(tokio::task::spawn_local(ACTOR.scope(gp, async move {
                for i in 0..n {
                    let mut m = format!("T{ti}:P{p}:{i}");
                    if size > m.len() {
                        m.push(';');
                        while m.len() < size {
                            m.push('x');
                        }
                    }
                    if publisher.send(m).await.is_err() {
                        break;
                    }
                    if gap > 0 {
                        tokio::time::sleep(Duration::from_millis(gap)).await;
                    }
                }
                let _ = publisher.finish().await;
            })));
        }
    }
    let has_raw = sc.raw_limit_slack.is_some() || sc.raw_pipelined;
    if has_raw {
        let slack = sc.raw_limit_slack;
        let pipelined = sc.raw_pipelined;
        let gr = world.new_group();
        let (ep, conn) = world.raw_trusted(gr, None).await?;
        let topic = selium_protocol::TopicName::try_from(sc.topics[0].name.as_str()).map_err(|e| anyhow::anyhow!("{e}"))?;
        tasks.push(tokio::task::spawn_local(ACTOR.scope(gr, async move {
            let _keep = ep;
            let reg = selium_protocol::Frame::RegisterPublisher(selium_protocol::PublisherPayload { topic, retention_policy: 0, operations: vec![] });
            let mut first = b"T0:R:0".to_vec();
            if let Some(slack) = slack {
                first.push(b';');
                first.resize(message_len_for_slack(slack), b'y');
            }
            let mut st = if pipelined {
                use tokio_util::codec::Encoder;
                let mut buf = bytes::BytesMut::new();
                if selium_protocol::MessageCodec.encode(reg, &mut buf).is_err() {
                    return;
                }
                buf.extend_from_slice(&hand_encode_message(&first));
                buf.extend_from_slice(&hand_encode_message(b"T0:R:1"));
                let Ok(mut st) = selium_protocol::BiStream::try_from_connection(&conn).await else { return };
                let _ = st.write().write_all(&buf).await;
                let _ = st.next().await;
                st
            } else {
                let Ok(mut st) = raw_open(&conn, reg).await else { return };
                if !matches!(st.next().await, Some(Ok(selium_protocol::Frame::Ok))) {
                    return;
                }
                let _ = st.write().write_all(&hand_encode_message(&first)).await;
                let _ = st.write().write_all(&hand_encode_message(b"T0:R:1")).await;
                st
            };
            let _ = st.write().finish().await;
            // keep the connection until the server has read everything
            tokio::time::sleep(Duration::from_secs(600)).await;
        })));
    }
    let raw_task = if has_raw { tasks.pop() } else { None };
    for t in tasks {
        let _ = t.await;
    }
    let _raw_task = raw_task;
    // complete, or nothing has arrived anywhere for 120 virtual seconds (progress-based: large
    // padded messages under heavy reordering travel at a few tens of kilobytes per second)
    let total = |l: &Vec<(usize, Received)>| l.iter().map(|(_, g)| g.borrow().len()).sum::<usize>();
    let mut last = total(&lists);
    let mut deadline = tokio::time::Instant::now() + Duration::from_secs(120);
    loop {
        let done = lists.iter().all(|(ti, g)| g.borrow().len() >= sc.topics[*ti].n_pubs * sc.topics[*ti].msgs_per_pub + if *ti == 0 && has_raw { 2 } else { 0 });
        if done || tokio::time::Instant::now() >= deadline {
            break;
        }
        tokio::time::sleep(Duration::from_millis(100)).await;
        let now = total(&lists);
        if now != last {
            last = now;
            deadline = tokio::time::Instant::now() + Duration::from_secs(120);
        }
    }
    tokio::time::sleep(Duration::from_millis(1000)).await;
    // the padding is checked here and stripped, the oracle works on the labels
    let raw_len = sc.raw_limit_slack.map(message_len_for_slack).unwrap_or(0);
    let strip = |m: &String| -> String {
        match m.split_once(';') {
            Some((label, pad)) if label == "T0:R:0" => {
                if pad.bytes().all(|b| b == b'y') && m.len() == raw_len {
                    label.to_string()
                } else {
                    format!("GARBLED:{}", m.chars().take(40).collect::<String>())
                }
            }
            Some((label, pad)) if pad.bytes().all(|b| b == b'x') && m.len() == sc.msg_size => label.to_string(),
            Some(_) => format!("GARBLED:{}", m.chars().take(40).collect::<String>()),
            None => m.clone(),
        }
    };
    Ok(lists.into_iter().map(|(ti, g)| (ti, g.borrow().iter().map(strip).collect())).collect())
}

pub fn execute(prop: &str, sc: &MtScript, opts: &ExecOpts) -> Outcome {
    let mut out = Outcome::default();
    let sc2 = sc.clone();
    let res = run_world(sc.net, sc.rt_seed, Duration::from_secs(7200), move |world| scenario(world, sc2));
    let mut th = Hasher64::default();
    match res {
        Err(e) => {
            out.inconclusive = true;
            out.log.push(format!("world failed: {e:#}"));
        }
        Ok(r) => {
            fold(&mut out, prop, &r);
            let lost = r.events.iter().any(|e| e.message.contains("lost connection"));
            if lost {
                if sc.net.loss_ppm == 0 {
                    // nobody cut anything and no datagram was lost: a stream that loses its
                    // connection here was dropped by the server
                    let who = r.events.iter().find(|e| e.message.contains("lost connection")).and_then(|e| e.actor);
                    out.violate(prop, "stream-dropped-by-server", "multi-topic", format!("a client stream (network group {who:?}) lost its connection on a loss-free network with nothing cut: the server dropped a healthy peer (frame at the limit from another publisher: {:?})", sc.raw_limit_slack));
                } else {
                    out.inconclusive = true;
                }
            }
            match &r.value {
                None => {
                    if !lost {
                        out.violate(prop, "scenario-timeout", "multi-topic", "the multi-topic exchange did not finish".into());
                    }
                }
                Some(Err(e)) => setup_failed(&mut out, prop, "multi-topic", &sc.net, e),
                Some(Ok(lists)) if !lost => {
                    for (si, (ti, got)) in lists.iter().enumerate() {
                        let t = &sc.topics[*ti];
                        th.word(got.len() as u64);
                        let foreign: Vec<&String> = got.iter().filter(|m| !m.starts_with(&format!("T{ti}:"))).collect();
                        if !foreign.is_empty() {
                            out.violate(prop, "cross-topic-delivery", "multi-topic", format!("subscriber {si} of {:?} received {:?}, sent on another topic ({:?})", t.name, foreign[0], sc.topics.iter().map(|x| x.name.clone()).collect::<Vec<_>>()));
                            continue;
                        }
                        for p in 0..t.n_pubs {
                            let mine: Vec<&String> = got.iter().filter(|m| m.starts_with(&format!("T{ti}:P{p}:"))).collect();
                            let want: Vec<String> = (0..t.msgs_per_pub).map(|i| format!("T{ti}:P{p}:{i}")).collect();
                            if mine.iter().map(|s| s.as_str()).collect::<Vec<_>>() != want.iter().map(|s| s.as_str()).collect::<Vec<_>>() {
                                let tag = if mine.len() < want.len() { "messages-lost" } else if mine.len() > want.len() { "messages-duplicated" } else { "messages-reordered" };
                                out.violate(prop, tag, "multi-topic", format!("subscriber {si} of {:?}: from publisher {p} it received {} messages {:?}…, {} were sent in order", t.name, mine.len(), mine.iter().take(4).collect::<Vec<_>>(), want.len()));
                                break;
                            }
                        }
                    }
                    if sc.raw_limit_slack.is_some() || sc.raw_pipelined {
                        let slack = sc.raw_limit_slack;
                        if slack.is_some() {
                            out.fault("raw_publisher_frame_at_limit");
                        }
                        if sc.raw_pipelined {
                            out.fault("raw_publisher_does_not_wait_for_ok");
                        }
                        for (si, (ti, got)) in lists.iter().enumerate() {
                            if *ti != 0 {
                                continue;
                            }
                            let mine: Vec<&str> = got.iter().filter(|m| m.starts_with("T0:R:")).map(|s| s.as_str()).collect();
                            if mine != ["T0:R:0", "T0:R:1"] {
                                let sig = if slack.is_some() { "multi-topic:frame-at-limit" } else { "multi-topic:pipelined-registration" };
                                out.violate(prop, "messages-lost", sig, format!("subscriber {si} of {:?}: a publisher that lays out its own frames (first message {}, registration answer awaited: {}) sent two messages; the subscriber received {:?} from it (and {} messages in all)", sc.topics[0].name, slack.map(|s| format!("{s} bytes short of the frame limit")).unwrap_or_else(|| "small".into()), !sc.raw_pipelined, mine, got.len()));
                                break;
                            }
                        }
                    }
                    out.probe_n("topics_used_concurrently", sc.topics.len() as u64);
                    out.nontrivial = sc.topics.len() >= 2;
                    out.steps = lists.iter().map(|l| l.1.len() as u64).sum();
                    if opts.want_log {
                        for (ti, g) in lists {
                            out.log.push(format!("topic {} subscriber got {:?}", sc.topics[*ti].name, g));
                        }
                    }
                }
                _ => {}
            }
            th.word(r.net_trace);
        }
    }
    out.trace_hash = th.finish();
    out.full_hash = th.finish();
    out
}

pub struct MultiTopic;
pub static MULTI_TOPIC: MultiTopic = MultiTopic;

impl Family for MultiTopic {
    fn name(&self) -> &'static str {
        "multi-topic"
    }
    fn engine(&self) -> &'static str {
        "N"
    }
    fn generate(&self, _p: &str, _t: Tier, _i: u64, _n: u64, rng: &mut Rng) -> Value {
        serde_json::to_value(gen_script(rng)).unwrap()
    }
    fn execute(&self, property: &str, body: &Value, opts: &ExecOpts) -> Outcome {
        match serde_json::from_value::<MtScript>(body.clone()) {
            Ok(sc) => execute(property, &sc, opts),
            Err(e) => {
                let mut o = Outcome::default();
                o.inconclusive = true;
                o.log.push(format!("bad script: {e}"));
                o
            }
        }
    }
    fn shrink(&self, body: &Value) -> Vec<Value> {
        let Ok(sc) = serde_json::from_value::<MtScript>(body.clone()) else { return vec![] };
        let mut out = vec![];
        if sc.topics.len() > 2 {
            for i in 0..sc.topics.len() {
                let mut c = sc.clone();
                c.topics.remove(i);
                out.push(c);
            }
        }
        for i in 0..sc.topics.len() {
            if sc.topics[i].msgs_per_pub > 1 {
                let mut c = sc.clone();
                c.topics[i].msgs_per_pub = 1;
                out.push(c);
            }
            if sc.topics[i].n_pubs > 1 {
                let mut c = sc.clone();
                c.topics[i].n_pubs = 1;
                out.push(c);
            }
            if sc.topics[i].n_subs > 1 {
                let mut c = sc.clone();
                c.topics[i].n_subs = 1;
                out.push(c);
            }
        }
        if sc.msg_size > 0 {
            let mut c = sc.clone();
            c.msg_size = 0;
            out.push(c);
        }
        if sc.raw_limit_slack.is_some() {
            let mut c = sc.clone();
            c.raw_limit_slack = None;
            out.push(c);
        }
        if sc.raw_pipelined {
            let mut c = sc.clone();
            c.raw_pipelined = false;
            out.push(c);
        }
        if sc.net.loss_ppm > 0 || sc.net.dup_ppm > 0 || sc.net.jitter_ms > 0 {
            let mut c = sc.clone();
            c.net.loss_ppm = 0;
            c.net.dup_ppm = 0;
            c.net.jitter_ms = 0;
            out.push(c);
        }
        out.into_iter().map(|s| serde_json::to_value(s).unwrap()).collect()
    }
    fn watchdog_ms(&self) -> u64 {
        60_000
    }
}
