//! C02 (N part) — momentarily slow requestors through the whole stack: raw requestors behind small
//! flow-control windows send bursts of requests and only start reading after a stall, so that the
//! request/reply router's reply path meets real back-pressure from `FramedWrite<SendStream>`.
//! Every requestor must end up with exactly one reply per request, its own, intact, with the
//! routing tag stripped. This is the cross-check of the R-engine's mock sinks for C02's "no reply
//! is dropped or overwritten because some requestor is momentarily slow".

use super::e2e::mild_net;
use super::net::NetCfg;
use super::sim::*;
use crate::core::*;
use crate::rng::{Hasher64, Rng};
use anyhow::Result as AResult;
use bytes::Bytes;
use futures::{SinkExt, StreamExt};
use quinn::{TransportConfig, VarInt};
use selium::keep_alive::BackoffStrategy;
use selium::prelude::*;
use selium::std::codecs::StringCodec;
use selium_protocol::{Frame, MessagePayload, RequestorPayload, TopicName};
use serde::{Deserialize, Serialize};
use serde_json::Value;
use std::collections::HashMap;
use std::rc::Rc;
use std::time::Duration;

#[derive(Clone, Debug, Serialize, Deserialize)]
pub struct SlowReq {
    pub window: u32,
    pub n_requests: usize,
    /// how long after its burst the requestor starts reading
    pub stall_ms: u64,
    /// pause between reads once it reads
    pub read_gap_ms: u64,
    /// supplies its own (forged) routing tag
    pub forged_cid: bool,
    /// every request frame reaches the server in two pieces: all but its last `split_tail` bytes,
    /// a pause, then the rest (0: written in one piece)
    #[serde(default)]
    pub split_tail: usize,
}

#[derive(Clone, Debug, Serialize, Deserialize)]
pub struct RsScript {
    pub net: NetCfg,
    pub rt_seed: u64,
    pub reply_size: usize,
    pub requestors: Vec<SlowReq>,
}

pub fn gen_script(rng: &mut Rng) -> RsScript {
    let n = rng.usize(2, 4);
    RsScript {
        net: mild_net(rng),
        rt_seed: rng.next(),
        reply_size: *rng.pick(&[10usize, 500, 3_000, 9_000, 40_000]),
        requestors: (0..n)
            .map(|_| SlowReq {
                window: *rng.pick(&[1_024u32, 2_048, 8_192, 1_000_000]),
                n_requests: rng.usize(1, 12),
                stall_ms: *rng.pick(&[0u64, 0, 300, 1_500, 4_000]),
                read_gap_ms: *rng.pick(&[0u64, 0, 5, 50]),
                forged_cid: rng.chance(1, 4),
                split_tail: if rng.chance(1, 3) { rng.usize(1, 12) } else { 0 },
            })
            .collect(),
    }
}

#[derive(Debug, Default, Clone)]
pub struct ReqReport {
    pub registered: bool,
    /// (req_id header, had cid header, body)
    pub replies: Vec<(String, bool, String)>,
    pub notes: Vec<String>,
}

fn reply_body(q: &str, size: usize) -> String {
    let mut s = format!("re:{q}:");
    while s.len() < size {
        s.push('r');
    }
    s
}

async fn requestor(world: Rc<World>, idx: usize, spec: SlowReq, group: u32) -> ReqReport {
    let mut rep = ReqReport::default();
    let mut t = TransportConfig::default();
    t.stream_receive_window(VarInt::from_u32(spec.window));
    t.receive_window(VarInt::from_u32(spec.window.saturating_mul(2)));
    let Ok((ep, conn)) = world.raw_trusted(group, Some(t)).await else {
        rep.notes.push("connect failed".into());
        return rep;
    };
    let topic = TopicName::try_from("/slow/rpc").unwrap();
    let Ok(mut stream) = raw_open(&conn, Frame::RegisterRequestor(RequestorPayload { topic })).await else {
        rep.notes.push("open failed".into());
        return rep;
    };
    rep.registered = matches!(stream.next().await, Some(Ok(Frame::Ok)));
    if !rep.registered {
        return rep;
    }
    // replier and the other requestors settle
    tokio::time::sleep(Duration::from_millis(500)).await;
    for i in 0..spec.n_requests {
        let mut h = HashMap::new();
        h.insert("req_id".to_string(), format!("{i}"));
        if spec.forged_cid {
            h.insert("cid".to_string(), format!("{}", (idx + 1) % 4));
        }
        let frame = Frame::Message(MessagePayload { headers: Some(h), message: Bytes::from(format!("R{idx}:{i}")) });
        if spec.split_tail > 0 {
            use tokio_util::codec::Encoder;
            let mut buf = bytes::BytesMut::new();
            if selium_protocol::MessageCodec.encode(frame, &mut buf).is_err() {
                rep.notes.push(format!("encode {i} failed"));
                break;
            }
            let cut = buf.len().saturating_sub(spec.split_tail);
            let a = stream.write().write_all(&buf[..cut]).await;
            tokio::time::sleep(Duration::from_millis(20)).await;
            let b = stream.write().write_all(&buf[cut..]).await;
            if a.is_err() || b.is_err() {
                rep.notes.push(format!("send {i} failed"));
                break;
            }
        } else if let Err(e) = stream.send(frame).await {
            rep.notes.push(format!("send {i} failed: {e}"));
            break;
        }
    }
    tokio::time::sleep(Duration::from_millis(spec.stall_ms)).await;
    // read until every reply is in, or nothing has arrived for 120 virtual seconds
    loop {
        match tokio::time::timeout(Duration::from_secs(120), stream.next()).await {
            Ok(Some(Ok(Frame::Message(m)))) => {
                let h = m.headers.clone().unwrap_or_default();
                rep.replies.push((h.get("req_id").cloned().unwrap_or_default(), h.contains_key("cid"), String::from_utf8_lossy(&m.message).to_string()));
            }
            Ok(Some(Ok(f))) => rep.notes.push(format!("unexpected frame type {}", f.get_type())),
            Ok(Some(Err(e))) => {
                rep.notes.push(format!("stream error: {e}"));
                break;
            }
            Ok(None) => {
                rep.notes.push("stream ended".into());
                break;
            }
            Err(_) => break,
        }
        if spec.read_gap_ms > 0 {
            tokio::time::sleep(Duration::from_millis(spec.read_gap_ms)).await;
        }
        if rep.replies.len() > spec.n_requests + 4 {
            break;
        }
        if rep.replies.len() == spec.n_requests {
            // look a little further for duplicates
            match tokio::time::timeout(Duration::from_millis(1500), stream.next()).await {
                Ok(Some(Ok(Frame::Message(m)))) => {
                    let h = m.headers.clone().unwrap_or_default();
                    rep.replies.push((h.get("req_id").cloned().unwrap_or_default(), h.contains_key("cid"), String::from_utf8_lossy(&m.message).to_string()));
                }
                _ => break,
            }
        }
    }
    drop((ep, conn));
    rep
}

async fn scenario(world: Rc<World>, sc: RsScript) -> AResult<Vec<ReqReport>> {
    world.start_server(ServerOpts::default())?;
    let gr = world.new_group();
    let w = world.clone();
    let c = ACTOR.scope(gr, async move { w.client(BackoffStrategy::constant().with_max_attempts(0)).await }).await?;
    let size = sc.reply_size;
    let mut r = ACTOR
        .scope(gr, c.replier("/slow/rpc").with_request_decoder(StringCodec).with_reply_encoder(StringCodec).with_handler(move |q: String| async move { Ok::<_, anyhow::Error>(reply_body(&q, size)) }).open())
        .await?;
    tokio::task::spawn_local(ACTOR.scope(gr, async move {
        let _ = r.listen().await;
    }));
    tokio::time::sleep(Duration::from_millis(300)).await;
    let mut tasks = vec![];
    for (i, spec) in sc.requestors.iter().enumerate() {
        let g = world.new_group();
        tasks.push(tokio::task::spawn_local(requestor(world.clone(), i, spec.clone(), g)));
    }
    let mut out = vec![];
    for t in tasks {
        out.push(t.await.unwrap_or_default());
    }
    Ok(out)
}

pub fn execute(prop: &str, sc: &RsScript, opts: &ExecOpts) -> Outcome {
    let mut out = Outcome::default();
    let sc2 = sc.clone();
    let res = run_world(sc.net, sc.rt_seed, Duration::from_secs(3600), move |world| scenario(world, sc2));
    let mut th = Hasher64::default();
    match res {
        Err(e) => {
            out.inconclusive = true;
            out.log.push(format!("world failed: {e:#}"));
        }
        Ok(r) => {
            fold(&mut out, prop, &r);
            let lost = r.events.iter().any(|e| e.message.contains("lost connection"));
            match &r.value {
                _ if lost => out.inconclusive = true,
                None => out.violate(prop, "scenario-timeout", "slow-requestors", "the exchange did not finish within 3600 virtual seconds".into()),
                Some(Err(e)) => setup_failed(&mut out, prop, "slow-requestors", &sc.net, e),
                Some(Ok(reps)) => {
                    let mut stalled = 0;
                    for (i, (rep, spec)) in reps.iter().zip(sc.requestors.iter()).enumerate() {
                        th.word(rep.replies.len() as u64);
                        if !rep.registered {
                            out.inconclusive = true;
                            continue;
                        }
                        if spec.stall_ms > 0 {
                            stalled += 1;
                        }
                        let sig = "slow-requestors";
                        for (id, cid, body) in &rep.replies {
                            let want = id.parse::<usize>().ok().filter(|k| *k < spec.n_requests).map(|k| reply_body(&format!("R{i}:{k}"), sc.reply_size));
                            if want.as_deref() != Some(body.as_str()) {
                                out.violate(prop, "reply-misrouted-or-garbled", sig, format!("requestor {i} received a reply tagged req_id={id:?} with body {:?}…, which answers none of its requests", body.chars().take(24).collect::<String>()));
                            }
                            if *cid {
                                out.violate(prop, "routing-tag-not-stripped", sig, format!("requestor {i} received a reply still carrying the cid header"));
                            }
                        }
                        let mut ids: Vec<&String> = rep.replies.iter().map(|r| &r.0).collect();
                        ids.sort();
                        let n_all = ids.len();
                        ids.dedup();
                        if ids.len() < n_all {
                            out.violate(prop, "reply-duplicated", sig, format!("requestor {i} received {n_all} replies for {} distinct requests", ids.len()));
                        }
                        if ids.len() < spec.n_requests {
                            out.violate(prop, "reply-lost", sig, format!("requestor {i} (window {}, stall {} ms) sent {} requests and received replies to {} of them (notes {:?}); reply size {}", spec.window, spec.stall_ms, spec.n_requests, ids.len(), rep.notes, sc.reply_size));
                        }
                    }
                    out.fault_n("requestor_stalled_behind_small_window", stalled);
                    out.fault_n("request_frame_split_near_its_end", sc.requestors.iter().filter(|r| r.split_tail > 0).map(|r| r.n_requests as u64).sum());
                    out.nontrivial = stalled > 0;
                    out.steps = reps.iter().map(|r| r.replies.len() as u64).sum();
                    out.probe_n("replies_checked_end_to_end", out.steps);
                    if opts.want_log {
                        for (i, r) in reps.iter().enumerate() {
                            out.log.push(format!("requestor {i}: registered={} replies={:?} notes={:?}", r.registered, r.replies.iter().map(|x| x.0.clone()).collect::<Vec<_>>(), r.notes));
                        }
                    }
                }
            }
            th.word(r.net_trace);
        }
    }
    out.trace_hash = th.finish();
    out.full_hash = th.finish();
    out
}

pub struct RrSlow;
pub static RR_SLOW: RrSlow = RrSlow;

impl Family for RrSlow {
    fn name(&self) -> &'static str {
        "slow-requestors"
    }
    fn engine(&self) -> &'static str {
        "N"
    }
    fn generate(&self, _p: &str, _t: Tier, _i: u64, _n: u64, rng: &mut Rng) -> Value {
        serde_json::to_value(gen_script(rng)).unwrap()
    }
    fn execute(&self, property: &str, body: &Value, opts: &ExecOpts) -> Outcome {
        match serde_json::from_value::<RsScript>(body.clone()) {
            Ok(sc) => execute(property, &sc, opts),
            Err(e) => {
                let mut o = Outcome::default();
                o.inconclusive = true;
                o.log.push(format!("bad script: {e}"));
                o
            }
        }
    }
    fn shrink(&self, body: &Value) -> Vec<Value> {
        let Ok(sc) = serde_json::from_value::<RsScript>(body.clone()) else { return vec![] };
        let mut out = vec![];
        if sc.requestors.len() > 1 {
            for i in 0..sc.requestors.len() {
                let mut c = sc.clone();
                c.requestors.remove(i);
                out.push(c);
            }
        }
        if sc.net.loss_ppm > 0 || sc.net.dup_ppm > 0 || sc.net.jitter_ms > 0 {
            let mut c = sc.clone();
            c.net.loss_ppm = 0;
            c.net.dup_ppm = 0;
            c.net.jitter_ms = 0;
            out.push(c);
        }
        for i in 0..sc.requestors.len() {
            if sc.requestors[i].n_requests > 1 {
                let mut c = sc.clone();
                c.requestors[i].n_requests /= 2;
                out.push(c);
            }
            if sc.requestors[i].read_gap_ms > 0 {
                let mut c = sc.clone();
                c.requestors[i].read_gap_ms = 0;
                out.push(c);
            }
            if sc.requestors[i].split_tail > 0 {
                let mut c = sc.clone();
                c.requestors[i].split_tail = 0;
                out.push(c);
            }
            if sc.requestors[i].forged_cid {
                let mut c = sc.clone();
                c.requestors[i].forged_cid = false;
                out.push(c);
            }
        }
        if sc.reply_size > 10 {
            let mut c = sc.clone();
            c.reply_size = 10;
            out.push(c);
        }
        out.into_iter().map(|s| serde_json::to_value(s).unwrap()).collect()
    }
    fn watchdog_ms(&self) -> u64 {
        40_000
    }
}
