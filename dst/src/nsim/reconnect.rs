//! C12 — streams re-establish themselves after connection loss, within a per-outage retry budget.
//! C13 — the delays between reconnect attempts follow the configured backoff law (measured on the
//! virtual clock).
//!
//! One victim stream (publisher / subscriber / requestor / replier, real library code) and one
//! helper counterpart on a separate connection. Outages: the H1 close hook, a partition that the
//! harness holds for an exact number of failed attempts, a server restart.

use super::net::NetCfg;
use super::sim::*;
use crate::core::*;
use crate::rng::{Hasher64, Rng};
use anyhow::Result as AResult;
use futures::{SinkExt, StreamExt};
use selium::keep_alive::BackoffStrategy;
use selium::prelude::*;
use selium::std::codecs::StringCodec;
use serde::{Deserialize, Serialize};
use serde_json::Value;
use std::cell::RefCell;
use std::rc::Rc;
use std::time::Duration;

#[derive(Clone, Copy, Debug, Serialize, Deserialize, PartialEq)]
#[serde(rename_all = "snake_case")]
pub enum Kind {
    Publisher,
    Subscriber,
    Requestor,
    Replier,
}

#[derive(Clone, Copy, Debug, Serialize, Deserialize, PartialEq)]
#[serde(rename_all = "snake_case")]
pub enum Strategy {
    Constant,
    Linear,
    Exponential(u64),
}

#[derive(Clone, Copy, Debug, Serialize, Deserialize, PartialEq)]
pub struct BackoffCfg {
    pub strategy: Strategy,
    pub step_ms: u64,
    pub max_attempts: u32,
    pub max_ms: Option<u64>,
    /// order in which the three builder setters are called (0..=5): the configuration must not
    /// depend on it
    #[serde(default)]
    pub setter_order: u8,
}

impl BackoffCfg {
    pub fn build(&self) -> BackoffStrategy {
        let mut b = match self.strategy {
            Strategy::Constant => BackoffStrategy::constant(),
            Strategy::Linear => BackoffStrategy::linear(),
            Strategy::Exponential(f) => BackoffStrategy::exponential(f),
        };
        // 0 = attempts, 1 = step, 2 = cap
        const ORDERS: [[u8; 3]; 6] = [[0, 1, 2], [0, 2, 1], [1, 0, 2], [1, 2, 0], [2, 0, 1], [2, 1, 0]];
        for which in ORDERS[(self.setter_order % 6) as usize] {
            b = match which {
                0 => b.with_max_attempts(self.max_attempts),
                1 => b.with_step(Duration::from_millis(self.step_ms)),
                _ => match self.max_ms {
                    Some(m) => b.with_max_duration(Duration::from_millis(m)),
                    None => b,
                },
            };
        }
        b
    }
    /// Reference law in u128 milliseconds with saturation (attempt numbered from 1).
    pub fn law_ms(&self, attempt: u32) -> u128 {
        let step = self.step_ms as u128;
        let raw = match self.strategy {
            Strategy::Constant => step,
            Strategy::Linear => step.saturating_mul(attempt as u128),
            Strategy::Exponential(f) => {
                let mut p: u128 = 1;
                for _ in 1..attempt {
                    p = p.saturating_mul(f as u128);
                    if p == u128::MAX {
                        break;
                    }
                }
                step.saturating_mul(p)
            }
        };
        match self.max_ms {
            Some(m) => raw.min(m as u128),
            None => raw,
        }
    }
}

#[derive(Clone, Copy, Debug, Serialize, Deserialize, PartialEq)]
#[serde(rename_all = "snake_case")]
pub enum Fault {
    /// H1: the client's QUIC connection is closed locally
    Close,
    /// the victim's link is cut until exactly `failed` reconnect attempts have failed
    Partition { failed: u32 },
    /// the server process dies (nothing survives) and a new one binds the same address later
    Restart { down_ms: u64 },
    /// the server is replaced by one that answers every (re-)registration with this non-bind error
    /// code: an unrecoverable error, which must be reported at once, without further attempts
    Impostor { code: u32 },
    /// H1 close, and a second H1 close `after_ms` after the first reconnect attempt is announced.
    /// The hook has to wait for the connection lock, which the recovering stream holds until its
    /// new QUIC stream is open: the second cut therefore lands between the re-registration being
    /// sent and its answer being read (or, on a fast network, right after the recovery).
    CloseDuringRecovery { after_ms: u64 },
}

#[derive(Clone, Copy, Debug, Serialize, Deserialize)]
pub struct Outage {
    pub fault: Fault,
    pub quiet_ms_before: u64,
}

#[derive(Clone, Debug, Serialize, Deserialize)]
pub struct RcScript {
    pub net: NetCfg,
    pub rt_seed: u64,
    pub kind: Kind,
    pub backoff: BackoffCfg,
    pub outages: Vec<Outage>,
    /// C13 mode: one partition held for the whole schedule, only timing is judged
    pub timing_only: bool,
    /// publisher victims: every round publishes this many messages back to back, all but the last
    /// with `feed` (no flush), each padded to `pub_pad` bytes — with enough of them the framed
    /// writer reaches its back-pressure boundary and a lost connection is first noticed by
    /// `poll_ready`, not by `poll_flush` (0 and 1: one `send` per round)
    #[serde(default)]
    pub pub_burst: usize,
    #[serde(default)]
    pub pub_pad: usize,
}

const CONNECT_TIMEOUT_MS: u64 = 10_000; // quinn's default max_idle_timeout bounds a handshake
const SERVER_IDLE_MS: u32 = 8_000;
const KEEP_ALIVE_MS: u64 = 2_000;
const OP_PERIOD_MS: u64 = 250;

#[derive(Clone, Debug)]
pub struct Op {
    pub idx: u64,
    pub started_ms: u64,
    pub finished_ms: u64,
    pub ok: bool,
    pub err: String,
}

#[derive(Default)]
pub struct Logs {
    /// victim-side operations (send / request), or helper-side for subscriber/replier victims
    pub ops: Vec<Op>,
    /// indices seen by the receiving side with their time
    pub received: Vec<(u64, u64)>,
    pub victim_final: Option<String>,
    pub notes: Vec<String>,
}

#[derive(Clone, Debug)]
pub struct OutageResult {
    pub fault: Fault,
    pub injected_ms: u64,
    pub healed_ms: Option<u64>,
    pub recovered_ms: Option<u64>,
    pub exhausted_ms: Option<u64>,
    /// (attempt_num, max_attempts, at_ms) announced by the victim during this outage
    pub attempts: Vec<(u32, u32, u64)>,
    /// first datagram of each new victim endpoint during this outage
    pub endpoint_first_send: Vec<u64>,
    pub window: Option<(u64, u64)>,
    /// victim event sequence of this outage: ('L' lost | 'A' attempt n | 'S' success | 'X' exhausted, n, at_ms)
    pub seq: Vec<(char, u32, u64)>,
}

fn field(ev: &TraceEvent, name: &str) -> Option<u32> {
    ev.fields.iter().find(|(k, _)| k == name).and_then(|(_, v)| v.parse().ok())
}

fn victim_events_since(group: u32, since_ms: u64) -> Vec<TraceEvent> {
    events_snapshot().into_iter().filter(|e| e.actor == Some(group) && e.at_ms >= since_ms).collect()
}

async fn scenario(world: Rc<World>, sc: RcScript) -> AResult<(Vec<OutageResult>, Rc<RefCell<Logs>>, u32)> {
    let opts = ServerOpts { idle_timeout_ms: SERVER_IDLE_MS, ..Default::default() };
    world.start_server(opts)?;
    let logs = Rc::new(RefCell::new(Logs::default()));
    let vg = world.new_group();
    let hg = world.new_group();
    let w = world.clone();
    let vb = sc.backoff.build();
    let certs = world.certs.clone();
    let c2 = certs.clone();
    let victim = ACTOR.scope(vg, async move { w.client_with(&c2, vb, KEEP_ALIVE_MS).await }).await?;
    let w = world.clone();
    let helper_backoff = BackoffStrategy::constant().with_max_attempts(50).with_step(Duration::from_millis(500));
    let helper = ACTOR.scope(hg, async move { w.client_with(&certs, helper_backoff, KEEP_ALIVE_MS).await }).await?;
    let stop = Rc::new(RefCell::new(false));
    let topic = "/recon/topic";
    // ---- drivers ----
    match sc.kind {
        Kind::Publisher => {
            let mut sub = ACTOR.scope(hg, helper.subscriber(topic).with_decoder(StringCodec).open()).await?;
            let l = logs.clone();
            tokio::task::spawn_local(ACTOR.scope(hg, async move {
                while let Some(item) = sub.next().await {
                    match item {
                        Ok(s) => {
                            if let Ok(i) = s.parse::<u64>() {
                                l.borrow_mut().received.push((i, virtual_ms()));
                            }
                        }
                        Err(e) => {
                            l.borrow_mut().notes.push(format!("helper subscriber error: {e}"));
                            break;
                        }
                    }
                }
            }));
            tokio::time::sleep(Duration::from_millis(800)).await;
            let mut publisher = ACTOR.scope(vg, victim.publisher(topic).with_encoder(StringCodec).open()).await?;
            let l = logs.clone();
            let st = stop.clone();
            let (burst, pad) = (sc.pub_burst, sc.pub_pad);
            tokio::task::spawn_local(ACTOR.scope(vg, async move {
                let mut i = 0u64;
                loop {
                    if *st.borrow() {
                        break;
                    }
                    let mut failed = false;
                    for j in 0..burst.max(1) {
                        let started = virtual_ms();
                        // zero-padded on the left: still parses as the same number
                        let item = format!("{i:0>pad$}");
                        let r = if j + 1 < burst { publisher.feed(item).await } else { publisher.send(item).await };
                        let finished = virtual_ms();
                        let (ok, err) = match &r {
                            Ok(()) => (true, String::new()),
                            Err(e) => (false, e.to_string()),
                        };
                        l.borrow_mut().ops.push(Op { idx: i, started_ms: started, finished_ms: finished, ok, err: err.clone() });
                        if !ok {
                            l.borrow_mut().victim_final = Some(err);
                            poke();
                            // asked again after the error (see the subscriber driver)
                            let again = tokio::time::timeout(Duration::from_secs(2), publisher.send("0".to_string())).await;
                            l.borrow_mut().notes.push(format!("asked again after the error: {}", match again { Ok(Ok(())) => "ok".to_string(), Ok(Err(e)) => format!("error {e}"), Err(_) => "pending".to_string() }));
                            failed = true;
                            break;
                        }
                        i += 1;
                    }
                    if failed {
                        break;
                    }
                    tokio::time::sleep(Duration::from_millis(OP_PERIOD_MS)).await;
                }
            }));
        }
        Kind::Subscriber => {
            let mut sub = ACTOR.scope(vg, victim.subscriber(topic).with_decoder(StringCodec).open()).await?;
            let l = logs.clone();
            tokio::task::spawn_local(ACTOR.scope(vg, async move {
                while let Some(item) = sub.next().await {
                    match item {
                        Ok(s) => {
                            if let Ok(i) = s.parse::<u64>() {
                                l.borrow_mut().received.push((i, virtual_ms()));
                            }
                        }
                        Err(e) => {
                            l.borrow_mut().victim_final = Some(e.to_string());
                            poke();
                            // an application may well ask a stream again after an error: the
                            // answer is another error or the end, whatever the stream's state
                            let again = tokio::time::timeout(Duration::from_secs(2), sub.next()).await;
                            l.borrow_mut().notes.push(format!("asked again after the error: {}", match again { Ok(Some(Ok(_))) => "item".to_string(), Ok(Some(Err(e))) => format!("error {e}"), Ok(None) => "end".to_string(), Err(_) => "pending".to_string() }));
                            break;
                        }
                    }
                }
            }));
            tokio::time::sleep(Duration::from_millis(800)).await;
            let mut publisher = ACTOR.scope(hg, helper.publisher(topic).with_encoder(StringCodec).open()).await?;
            let l = logs.clone();
            let st = stop.clone();
            let quiet = sc.timing_only;
            tokio::task::spawn_local(ACTOR.scope(hg, async move {
                let mut i = 0u64;
                loop {
                    if *st.borrow() || quiet {
                        break;
                    }
                    let started = virtual_ms();
                    let r = tokio::time::timeout(Duration::from_secs(120), publisher.send(format!("{i}"))).await;
                    let finished = virtual_ms();
                    let ok = matches!(r, Ok(Ok(())));
                    l.borrow_mut().ops.push(Op { idx: i, started_ms: started, finished_ms: finished, ok, err: if ok { String::new() } else { format!("{r:?}") } });
                    if !ok {
                        l.borrow_mut().notes.push(format!("helper publisher failed: {r:?}"));
                        break;
                    }
                    i += 1;
                    tokio::time::sleep(Duration::from_millis(OP_PERIOD_MS)).await;
                }
            }));
        }
        Kind::Requestor => {
            let mut replier = ACTOR.scope(hg, helper.replier(topic).with_request_decoder(StringCodec).with_reply_encoder(StringCodec).with_handler(|r: String| async move { Ok::<_, anyhow::Error>(format!("re:{r}")) }).open()).await?;
            let l = logs.clone();
            tokio::task::spawn_local(ACTOR.scope(hg, async move {
                let r = replier.listen().await;
                l.borrow_mut().notes.push(format!("helper replier stopped: {:?}", r.map_err(|e| e.to_string())));
            }));
            tokio::time::sleep(Duration::from_millis(800)).await;
            let mut requestor = ACTOR.scope(vg, victim.requestor(topic).with_request_encoder(StringCodec).with_reply_decoder(StringCodec).with_request_timeout(Duration::from_millis(1500))?.open()).await?;
            let l = logs.clone();
            let st = stop.clone();
            tokio::task::spawn_local(ACTOR.scope(vg, async move {
                let mut i = 0u64;
                loop {
                    if *st.borrow() {
                        break;
                    }
                    let started = virtual_ms();
                    let r = requestor.request(format!("{i}")).await;
                    let finished = virtual_ms();
                    let (ok, err) = match &r {
                        Ok(v) if *v == format!("re:{i}") => (true, String::new()),
                        Ok(v) => (false, format!("wrong reply {v}")),
                        Err(e) => (false, e.to_string()),
                    };
                    l.borrow_mut().ops.push(Op { idx: i, started_ms: started, finished_ms: finished, ok, err: err.clone() });
                    if err.contains("Too many") || err.contains("Failed to open stream") {
                        l.borrow_mut().victim_final = Some(err);
                        poke();
                        break;
                    }
                    i += 1;
                    tokio::time::sleep(Duration::from_millis(OP_PERIOD_MS)).await;
                }
            }));
        }
        Kind::Replier => {
            let mut replier = ACTOR.scope(vg, victim.replier(topic).with_request_decoder(StringCodec).with_reply_encoder(StringCodec).with_handler(|r: String| async move { Ok::<_, anyhow::Error>(format!("re:{r}")) }).open()).await?;
            let l = logs.clone();
            tokio::task::spawn_local(ACTOR.scope(vg, async move {
                let r = replier.listen().await;
                l.borrow_mut().victim_final = Some(match r {
                    Ok(()) => "listen returned Ok".into(),
                    Err(e) => e.to_string(),
                });
                poke();
            }));
            tokio::time::sleep(Duration::from_millis(800)).await;
            let mut requestor = ACTOR.scope(hg, helper.requestor(topic).with_request_encoder(StringCodec).with_reply_decoder(StringCodec).with_request_timeout(Duration::from_millis(1500))?.open()).await?;
            let l = logs.clone();
            let st = stop.clone();
            let quiet = sc.timing_only;
            tokio::task::spawn_local(ACTOR.scope(hg, async move {
                let mut i = 0u64;
                loop {
                    if *st.borrow() || quiet {
                        break;
                    }
                    let started = virtual_ms();
                    let r = requestor.request(format!("{i}")).await;
                    let finished = virtual_ms();
                    let (ok, err) = match &r {
                        Ok(v) if *v == format!("re:{i}") => (true, String::new()),
                        Ok(v) => (false, format!("wrong reply {v}")),
                        Err(e) => (false, e.to_string()),
                    };
                    l.borrow_mut().ops.push(Op { idx: i, started_ms: started, finished_ms: finished, ok, err });
                    i += 1;
                    tokio::time::sleep(Duration::from_millis(OP_PERIOD_MS)).await;
                }
            }));
        }
    }
    // ---- outages ----
    let mut results = vec![];
    let max_attempts = sc.backoff.max_attempts;
    let schedule_ms: u128 = (1..=max_attempts).map(|n| sc.backoff.law_ms(n).min(10_000_000)).sum();
    for o in &sc.outages {
        tokio::time::sleep(Duration::from_millis(o.quiet_ms_before)).await;
        if logs.borrow().victim_final.is_some() {
            break;
        }
        let t0 = virtual_ms();
        let mut res = OutageResult { fault: o.fault, injected_ms: t0, healed_ms: None, recovered_ms: None, exhausted_ms: None, attempts: vec![], endpoint_first_send: vec![], window: None, seq: vec![] };
        match o.fault {
            Fault::Close | Fault::CloseDuringRecovery { .. } => {
                victim.verif_close_connection().await;
                res.healed_ms = Some(t0);
            }
            Fault::Partition { .. } => world.net.set_partition(vg, true),
            Fault::Impostor { code } => {
                world.stop_server();
                start_impostor(&world, code)?;
                victim.verif_close_connection().await;
                res.healed_ms = Some(t0);
            }
            Fault::Restart { down_ms } => {
                world.stop_server();
                let w = world.clone();
                tokio::task::spawn_local(async move {
                    tokio::time::sleep(Duration::from_millis(down_ms)).await;
                    let _ = w.start_server(ServerOpts { idle_timeout_ms: SERVER_IDLE_MS, ..Default::default() });
                });
                res.healed_ms = Some(t0 + down_ms);
            }
        }
        // wait for the outcome of this outage
        let budget_ms = 20_000 + (schedule_ms.min(20_000_000) as u64) + (max_attempts as u64 + 1) * (CONNECT_TIMEOUT_MS + 2_000) + 10_000;
        // in timing mode the whole schedule is observed (the scenario's own horizon bounds the run)
        let deadline = if sc.timing_only { t0 + 2 * HORIZON_MS } else { t0 + budget_ms };
        let notify = event_notify();
        let mut second_cut_done = false;
        loop {
            let left = deadline.saturating_sub(virtual_ms()).max(1);
            tokio::select! {
                _ = notify.notified() => {}
                _ = tokio::time::sleep(Duration::from_millis(left)) => {}
            }
            let evs = victim_events_since(vg, t0);
            res.attempts = evs.iter().filter(|e| e.message.contains("Attempting to reconnect")).map(|e| (field(e, "attempt_num").unwrap_or(0), field(e, "max_attempts").unwrap_or(0), e.at_ms)).collect();
            if let Fault::CloseDuringRecovery { after_ms } = o.fault {
                if !second_cut_done && !res.attempts.is_empty() {
                    second_cut_done = true;
                    tokio::time::sleep(Duration::from_millis(after_ms)).await;
                    victim.verif_close_connection().await;
                    continue;
                }
            }
            if let Fault::Partition { failed } = o.fault {
                if res.healed_ms.is_none() && res.attempts.len() as u32 > failed {
                    // attempt number failed+1 has just been announced: let it through
                    world.net.set_partition(vg, false);
                    res.healed_ms = Some(virtual_ms());
                }
            }
            res.seq = evs
                .iter()
                .filter_map(|e| {
                    if e.message.contains("lost connection") {
                        Some(('L', 0, e.at_ms))
                    } else if e.message.contains("Attempting to reconnect") {
                        Some(('A', field(e, "attempt_num").unwrap_or(0), e.at_ms))
                    } else if e.message.contains("Successfully reconnected") {
                        Some(('S', 0, e.at_ms))
                    } else if e.message.contains("Too many connection retries") {
                        Some(('X', 0, e.at_ms))
                    } else {
                        None
                    }
                })
                .collect();
            if let Some(x) = res.seq.iter().find(|x| x.0 == 'X') {
                res.exhausted_ms = Some(x.2);
                break;
            }
            // recovered = a success that is not followed by another loss for 1.5 virtual seconds
            // (a replier can be accepted and then refused while the server still holds its old binding)
            if let Some(pos) = res.seq.iter().rposition(|x| x.0 == 'S') {
                let at = res.seq[pos].2;
                if !res.seq[pos + 1..].iter().any(|x| x.0 == 'L') {
                    if virtual_ms() >= at + 1_500 {
                        res.recovered_ms = Some(at);
                        break;
                    } else {
                        let wait = at + 1_500 - virtual_ms();
                        tokio::select! {
                            _ = notify.notified() => {}
                            _ = tokio::time::sleep(Duration::from_millis(wait)) => {}
                        }
                        continue;
                    }
                }
            }
            if logs.borrow().victim_final.is_some() {
                break;
            }
            if virtual_ms() > deadline {
                break;
            }
        }
        world.net.set_partition(vg, false);
        if res.healed_ms.is_none() {
            res.healed_ms = Some(virtual_ms());
        }
        // first datagram of each endpoint the victim created during this outage
        {
            let inner = world.net.inner.lock().unwrap();
            for (addr, g, created) in inner.endpoints_created.iter() {
                if *g == vg && *created >= t0 {
                    if let Some(ms) = inner.first_send_ms.get(addr) {
                        res.endpoint_first_send.push(*ms);
                    }
                }
            }
        }
        if let Some(rec) = res.recovered_ms {
            let mut rec = rec;
            // a restarted server also cut the helper's connection: its counterpart stream must be
            // back before post-recovery traffic can be judged
            if matches!(o.fault, Fault::Restart { .. }) && !sc.timing_only {
                let until = virtual_ms() + 90_000;
                let mut helper_back = None;
                loop {
                    let hv = victim_events_since(hg, t0);
                    if let Some(e) = hv.iter().rev().find(|e| e.message.contains("Successfully reconnected")) {
                        // it may need more than one go (e.g. a replier refused once)
                        let later_loss = hv.iter().any(|x| x.at_ms > e.at_ms && x.message.contains("lost connection"));
                        if !later_loss {
                            helper_back = Some(e.at_ms);
                            break;
                        }
                    }
                    if virtual_ms() > until {
                        break;
                    }
                    let left = until.saturating_sub(virtual_ms()).max(1).min(5_000);
                    tokio::select! {
                        _ = notify.notified() => {}
                        _ = tokio::time::sleep(Duration::from_millis(left)) => {}
                    }
                }
                match helper_back {
                    Some(h) => rec = rec.max(h),
                    None => {
                        // the helper never noticed or never came back: nothing to judge here
                        logs.borrow_mut().notes.push("helper did not recover after the restart; window skipped".into());
                        results.push(res);
                        continue;
                    }
                }
            }
            // traffic started after recovery (plus a settle period for the re-registration) must work
            tokio::time::sleep(Duration::from_millis(1_000)).await;
            let from = rec.max(res.healed_ms.unwrap_or(rec)).max(virtual_ms().saturating_sub(1_000)) + 1_000;
            tokio::time::sleep(Duration::from_millis(3_000)).await;
            res.window = Some((from, virtual_ms().saturating_sub(1_600)));
        }
        let exhausted = res.exhausted_ms.is_some();
        results.push(res);
        if exhausted {
            // give the failing operation time to surface the error
            tokio::time::sleep(Duration::from_millis(3_000)).await;
            break;
        }
    }
    *stop.borrow_mut() = true;
    tokio::time::sleep(Duration::from_millis(2_500)).await;
    Ok((results, logs, vg))
}

/// A QUIC server with the real TLS configuration that refuses every registration with `code`.
fn start_impostor(world: &Rc<World>, code: u32) -> AResult<()> {
    use quinn::{Endpoint, EndpointConfig, IdleTimeout, VarInt};
    use selium_protocol::{BiStream, ErrorPayload, Frame};
    use selium_server::quic::{load_root_store, read_certs, server_config, ConfigOptions};
    let certs = world.certs.clone();
    let root_store = load_root_store(certs.server.join("ca.der"))?;
    let (chain, key) = read_certs(certs.server.join("localhost.der"), certs.server.join("localhost.key.der"))?;
    let config = server_config(root_store, chain, key, ConfigOptions { keylog: false, stateless_retry: false, max_idle_timeout: IdleTimeout::from(VarInt::from_u32(SERVER_IDLE_MS)) })?;
    let sock = world.net.bind_server();
    let endpoint = Endpoint::new_with_abstract_socket(EndpointConfig::default(), Some(config), sock, std::sync::Arc::new(super::net::SimRuntime))?;
    tokio::task::spawn_local(async move {
        while let Some(connecting) = endpoint.accept().await {
            tokio::task::spawn_local(async move {
                let Ok(conn) = connecting.await else { return };
                while let Ok(stream) = conn.accept_bi().await {
                    let mut s = BiStream::from(stream);
                    tokio::task::spawn_local(async move {
                        let _ = s.next().await;
                        let _ = s.send(Frame::Error(ErrorPayload { code, message: "refused by the impostor".into() })).await;
                        tokio::time::sleep(Duration::from_secs(2)).await;
                    });
                }
            });
        }
    });
    Ok(())
}

pub fn gen_backoff(rng: &mut Rng, wide: bool) -> BackoffCfg {
    let strategy = match rng.below(3) {
        0 => Strategy::Constant,
        1 => Strategy::Linear,
        _ => Strategy::Exponential(if wide { *rng.pick(&[0u64, 1, 2, 2, 3, 4, 10, 16, 1 << 32, 1 << 63, u64::MAX]) } else { *rng.pick(&[1u64, 2, 3]) }),
    };
    let step_ms = if wide { *rng.pick(&[0u64, 1, 50, 700, 5_000, 1_000_000, 1_000_000_000_000]) } else { *rng.pick(&[1u64, 20, 100, 300, 700, 1500]) };
    let max_attempts = if wide { *rng.pick(&[0u32, 1, 2, 3, 5, 8, 21, 66, 130, 300]) } else { *rng.pick(&[0u32, 1, 2, 3, 4, 6]) };
    let max_ms = if rng.chance(1, 2) { Some(if wide { *rng.pick(&[0u64, 1, 500, 4_000, 60_000, 1_000_000_000_000_000_000]) } else { *rng.pick(&[500u64, 2_000, 4_000]) }) } else { None };
    BackoffCfg { strategy, step_ms, max_attempts, max_ms, setter_order: rng.below(6) as u8 }
}

/// The enumerated part of a C12 script: which stream kind is cut, by which class of fault, and how
/// many outages follow each other. Everything else (backoff configuration, quiet periods, network)
/// is drawn from the seed.
#[derive(Clone, Copy, Debug, PartialEq)]
pub enum FaultClass {
    Close,
    PartitionRecovering,
    PartitionExhausting,
    RestartShort,
    RestartLong,
    Impostor,
    CloseDuringRecovery,
}
#[derive(Clone, Copy, Debug, PartialEq)]
pub enum Repeat {
    Once,
    Few,
    BeyondBudget,
}

pub fn c12_points() -> Vec<(Kind, FaultClass, Repeat)> {
    let mut v = vec![];
    for k in [Kind::Publisher, Kind::Subscriber, Kind::Requestor, Kind::Replier] {
        for f in [FaultClass::Close, FaultClass::PartitionRecovering, FaultClass::PartitionExhausting, FaultClass::RestartShort, FaultClass::RestartLong, FaultClass::Impostor, FaultClass::CloseDuringRecovery] {
            for r in [Repeat::Once, Repeat::Few, Repeat::BeyondBudget] {
                v.push((k, f, r));
            }
        }
    }
    v
}

pub fn gen_c12(rng: &mut Rng, index: u64) -> RcScript {
    let pts = c12_points();
    let (kind, class, repeat) = pts[(index % pts.len() as u64) as usize];
    let mut backoff = gen_backoff(rng, false);
    if class == FaultClass::Impostor && backoff.max_attempts == 0 {
        backoff.max_attempts = 1;
    }
    let n_out = match repeat {
        Repeat::Once => 1,
        Repeat::Few => rng.usize(2, 3),
        Repeat::BeyondBudget => (backoff.max_attempts as usize + rng.usize(1, 3)).min(9),
    };
    let mut mk = |rng: &mut Rng, class: FaultClass| -> Fault {
        match class {
            FaultClass::Close => Fault::Close,
            FaultClass::PartitionRecovering => Fault::Partition { failed: rng.below(backoff.max_attempts.max(1) as u64) as u32 },
            FaultClass::PartitionExhausting => Fault::Partition { failed: backoff.max_attempts + rng.below(2) as u32 },
            FaultClass::RestartShort => Fault::Restart { down_ms: *rng.pick(&[100u64, 2_000]) },
            FaultClass::RestartLong => Fault::Restart { down_ms: 8_000 },
            FaultClass::Impostor => Fault::Impostor { code: *rng.pick(&[4u32, 6, 0, 77]) },
            FaultClass::CloseDuringRecovery => Fault::CloseDuringRecovery { after_ms: *rng.pick(&[0u64, 0, 1, 3, 10, 40]) },
        }
    };
    let mut outages = vec![];
    for i in 0..n_out {
        let last = i + 1 == n_out;
        // the enumerated class is the last outage; earlier ones are survivable faults of seeded kinds
        let fault = if last {
            mk(rng, class)
        } else {
            let c = *rng.pick(&[FaultClass::Close, FaultClass::Close, FaultClass::PartitionRecovering, FaultClass::RestartShort]);
            mk(rng, c)
        };
        outages.push(Outage { fault, quiet_ms_before: *rng.pick(&[0u64, 300, 1_000, 2_500]) });
    }
    RcScript { net: NetCfg { seed: rng.next(), loss_ppm: *rng.pick(&[0u32, 0, 10_000]), dup_ppm: 0, min_delay_ms: rng.range(1, 10) as u32, jitter_ms: *rng.pick(&[0u32, 5]) }, rt_seed: rng.next(), kind, backoff, outages, timing_only: false, pub_burst: *rng.pick(&[1usize, 1, 4, 6]), pub_pad: *rng.pick(&[0usize, 3_000, 3_000]) }
}

pub fn gen_c13(rng: &mut Rng, thorough: bool) -> RcScript {
    let kind = *rng.pick(&[Kind::Subscriber, Kind::Replier, Kind::Publisher, Kind::Requestor]);
    let mut backoff = gen_backoff(rng, true);
    if !thorough && backoff.max_attempts > 66 {
        backoff.max_attempts = 66;
    }
    // thousands of attempts only with tiny steps (each failed attempt costs 10 virtual seconds)
    if backoff.max_attempts > 130 {
        backoff.strategy = Strategy::Constant;
        backoff.step_ms = 0;
    }
    let outages = vec![Outage { fault: Fault::Partition { failed: backoff.max_attempts + 1 }, quiet_ms_before: 500 }];
    RcScript { net: NetCfg::calm(rng.next()), rt_seed: rng.next(), kind, backoff, outages, timing_only: true, pub_burst: 1, pub_pad: 0 }
}

const HORIZON_MS: u64 = 200_000_000; // 2 * 10^5 virtual seconds

/// The clock-free part of C13: the schedule object the victim is configured with is compared item
/// by item with the law computed independently in u128 nanoseconds. (This is a plain reference-
/// model comparison, not a simulation: the virtual clock cannot tell a delay of 600 years from one
/// of 10^20 years, both lie beyond any horizon. It is kept inside this family so that every
/// configuration whose timing is simulated also has its values checked.)
fn judge_schedule_model(prop: &str, sc: &RcScript, out: &mut Outcome) {
    let cfg = sc.backoff;
    let items = std::panic::catch_unwind(|| cfg.build().into_iter().take(cfg.max_attempts as usize + 2).collect::<Vec<_>>());
    let sig = format!("{:?}", cfg.strategy).to_lowercase();
    let sig = sig.split('(').next().unwrap_or("").to_string();
    let items = match items {
        Ok(v) => v,
        Err(_) => {
            let _ = crate::panics::take_all();
            out.violate(prop, "schedule-panics", &sig, format!("producing the schedule of {cfg:?} panicked"));
            return;
        }
    };
    if items.len() != cfg.max_attempts as usize {
        out.violate(prop, "schedule-length", &sig, format!("{cfg:?} yields {} attempts", items.len()));
    }
    let dmax = Duration::MAX.as_nanos();
    let step_ns = (cfg.step_ms as u128) * 1_000_000;
    for (i, it) in items.iter().enumerate() {
        let n = i as u32 + 1;
        let raw = match cfg.strategy {
            Strategy::Constant => step_ns,
            Strategy::Linear => step_ns.saturating_mul(n as u128),
            Strategy::Exponential(f) => {
                let mut p: u128 = 1;
                for _ in 1..n {
                    p = p.saturating_mul(f as u128);
                }
                step_ns.saturating_mul(p)
            }
        };
        let mut want = raw.min(dmax);
        if let Some(m) = cfg.max_ms {
            want = want.min((m as u128) * 1_000_000);
        }
        if it.attempt_num != n || it.max_attempts != cfg.max_attempts {
            out.violate(prop, "schedule-numbering", &sig, format!("{cfg:?}: item {n} is numbered {} of {}", it.attempt_num, it.max_attempts));
            return;
        }
        if it.duration.as_nanos() != want {
            let class = if it.duration.as_nanos() > want { "longer" } else { "shorter" };
            out.violate(prop, "schedule-off-law", &format!("{sig}:{class}"), format!("{cfg:?}: attempt {n} has delay {:?}, the law gives {want} ns", it.duration));
            return;
        }
    }
    out.probe_n("schedule_items_compared_with_law_model", items.len() as u64);
}

pub fn execute(prop: &str, sc: &RcScript, opts: &ExecOpts) -> Outcome {
    let mut out = Outcome::default();
    let sc2 = sc.clone();
    let limit = if sc.timing_only { Duration::from_millis(HORIZON_MS) } else { Duration::from_secs(3_000_000) };
    let res = run_world(sc.net, sc.rt_seed, limit, move |world| scenario(world, sc2));
    let mut th = Hasher64::default();
    let sigk = format!("{:?}", sc.kind).to_lowercase();
    match res {
        Err(e) => {
            out.inconclusive = true;
            out.log.push(format!("world failed: {e:#}"));
        }
        Ok(r) => {
            fold(&mut out, prop, &r);
            match &r.value {
                None => {
                    if sc.timing_only {
                        // the schedule outlasts the observation horizon: judged below from the events seen so far
                        out.probe("schedule_beyond_horizon");
                        judge_schedule_model(prop, sc, &mut out);
                        judge_timing_from_events(prop, sc, &r.events, &mut out, true);
                    } else {
                        out.violate(prop, "scenario-timeout", &sigk, "the reconnect scenario did not finish: an operation hangs".into());
                    }
                }
                Some(Err(e)) => {
                    out.inconclusive = true;
                    out.log.push(format!("setup error: {e:#}"));
                }
                Some(Ok((results, logs, vg))) => {
                    let logs = logs.borrow();
                    let max_attempts = sc.backoff.max_attempts;
                    if sc.timing_only {
                        judge_schedule_model(prop, sc, &mut out);
                        judge_timing(prop, sc, results, &logs, &mut out);
                    } else {
                        judge_recovery(prop, sc, results, &logs, &mut out);
                    }
                    for res in results {
                        th.word(res.attempts.len() as u64);
                        th.word(res.recovered_ms.is_some() as u64);
                        th.word(res.exhausted_ms.is_some() as u64);
                        match res.fault {
                            Fault::Close => out.fault("connection_closed_by_hook"),
                            Fault::CloseDuringRecovery { .. } => out.fault("connection_closed_again_during_re_registration"),
                            Fault::Partition { .. } => out.fault("partition_held_for_failed_attempts"),
                            Fault::Restart { .. } => out.fault("server_restart"),
                            Fault::Impostor { .. } => {}
                        }
                        if res.attempts.len() >= 3 && res.recovered_ms.is_some() {
                            out.probe("recovery_after_two_or_more_failed_attempts");
                        }
                        if res.exhausted_ms.is_some() {
                            out.probe("retry_budget_exhausted");
                        }
                    }
                    if results.iter().filter(|r| r.recovered_ms.is_some()).count() as u32 > max_attempts && max_attempts > 0 {
                        out.probe("more_outages_survived_than_max_attempts");
                    }
                    out.probe(&format!("victim_{sigk}"));
                    out.nontrivial = !results.is_empty();
                    out.steps = results.len() as u64;
                    if opts.want_log {
                        out.log.push(format!("kind {:?} backoff {:?} victim group {vg}", sc.kind, sc.backoff));
                        for res in results {
                            out.log.push(format!("{res:?}"));
                        }
                        out.log.push(format!("victim_final {:?} notes {:?}", logs.victim_final, logs.notes));
                        let fails: Vec<_> = logs.ops.iter().filter(|o| !o.ok).map(|o| (o.idx, o.started_ms, o.finished_ms, o.err.clone())).collect();
                        out.log.push(format!("ops {} failed {:?}", logs.ops.len(), fails));
                        out.log.push(format!("received {} last {:?}", logs.received.len(), logs.received.last()));
                    }
                }
            }
            if opts.want_log {
                for e in r.events.iter().filter(|e| !e.message.contains("Connecting") && !e.message.contains("Successfully connected")) {
                    out.log.push(format!("t={} actor={:?} {} {:?}", e.at_ms, e.actor, e.message, e.fields));
                }
            }
            th.word(r.net_trace);
        }
    }
    out.trace_hash = th.finish();
    out.full_hash = th.finish();
    out
}

fn judge_recovery(prop: &str, sc: &RcScript, results: &[OutageResult], logs: &Logs, out: &mut Outcome) {
    let k = format!("{:?}", sc.kind).to_lowercase();
    let max = sc.backoff.max_attempts;
    for (oi, res) in results.iter().enumerate() {
        // attempts are numbered from 1 after every loss of the connection the client reports
        // (a success that is lost again within 1.5 virtual seconds was no recovery: the numbering
        // may then either restart or continue)
        let mut expect = 1u32;
        let mut alt: Option<u32> = None;
        let mut last_success: Option<u64> = None;
        for (kind, n, at) in &res.seq {
            match kind {
                'S' => {
                    last_success = Some(*at);
                }
                'L' => {
                    match last_success {
                        Some(s) if *at < s + 1_500 => alt = Some(expect),
                        _ => alt = None,
                    }
                    expect = 1;
                    last_success = None;
                }
                'A' => {
                    if alt == Some(*n) && *n != expect {
                        expect = *n;
                    }
                    alt = None;
                    if *n != expect {
                        out.violate(prop, "attempt-numbering", &format!("{k}:not-per-outage"), format!("outage {oi}: at {at} ms an attempt was announced as number {n}, it is attempt {expect} since the connection was lost: the budget is not per outage"));
                        break;
                    }
                    expect += 1;
                }
                _ => {}
            }
        }
        for (_, m, _) in res.attempts.iter() {
            if *m != max {
                out.violate(prop, "attempt-numbering", &format!("{k}:max"), format!("outage {oi}: announced max_attempts {m}, configured {max}"));
                break;
            }
        }
        // expectation
        let (must_recover, must_exhaust) = match res.fault {
            Fault::Close => {
                // the server is reachable: the first attempt succeeds. A replier, however, is refused
                // (and charged an attempt) for as long as the server still holds its old binding:
                // one refusal while the close is being processed, many if the close datagram was lost
                if sc.kind == Kind::Replier {
                    (max >= 2 && sc.net.loss_ppm == 0, max == 0)
                } else {
                    (max >= 1, max == 0)
                }
            }
            Fault::Partition { failed } => {
                if sc.kind == Kind::Replier {
                    // after the heal the server may keep the stale binding for up to ~2.5 s (its own
                    // idle timer runs from its last received packet): recovery is demanded only if
                    // the remaining schedule outlasts that
                    let spare: u128 = ((failed + 1)..=max).map(|n| sc.backoff.law_ms(n)).sum();
                    (max >= failed + 2 && spare >= 4_000, failed >= max)
                } else {
                    (max >= failed + 1, failed >= max)
                }
            }
            Fault::Restart { .. } => (max >= 3, max == 0),
            Fault::Impostor { .. } => (false, false),
            // the first attempt may be the one that is cut; a replier additionally meets its own
            // stale binding, so only the classification of the error is judged for it (below)
            Fault::CloseDuringRecovery { .. } => (sc.kind != Kind::Replier && max >= 2, max == 0),
        };
        if let Fault::CloseDuringRecovery { .. } = res.fault {
            // the server was reachable and refused nothing: whatever cut the re-registration short
            // is a connection error, i.e. recoverable
            if let Some(e) = &logs.victim_final {
                if e.contains("Failed to open stream") && max >= 2 {
                    out.violate(prop, "recoverable-error-reported-as-unrecoverable", &k, format!("outage {oi}: the connection was cut again while the stream was re-registering; with {} of {max} attempts made the stream gave up with {e:?}", res.attempts.len()));
                    continue;
                }
            }
        }
        if let Fault::Impostor { code } = res.fault {
            out.fault("server_replaced_by_impostor");
            // the refusal is not a bind error: it must surface as that error, after one attempt
            let first_delay = sc.backoff.law_ms(1).min(100_000) as u64;
            match &logs.victim_final {
                Some(e) if e.contains("Failed to open stream") => {
                    out.probe("unrecoverable_error_reported");
                    if res.attempts.len() > 1 && sc.net.loss_ppm == 0 {
                        out.violate(prop, "retried-after-unrecoverable-error", &k, format!("outage {oi}: the server refused the re-registration with code {code}; {} attempts were made", res.attempts.len()));
                    }
                }
                Some(e) if e.contains("Too many") => {
                    if sc.net.loss_ppm == 0 {
                        out.violate(prop, "unrecoverable-error-not-reported", &format!("{k}:exhausted"), format!("outage {oi}: the server refused the re-registration with code {code} (not a bind error); the stream kept retrying and ended with too-many-retries"));
                    }
                }
                other => {
                    if sc.net.loss_ppm == 0 && max >= 1 {
                        out.violate(prop, "unrecoverable-error-not-reported", &format!("{k}:silent"), format!("outage {oi}: the server refused the re-registration with code {code}; the stream's operation ended with {other:?} (first delay {first_delay} ms)"));
                    }
                }
            }
            continue;
        }
        if must_recover && res.recovered_ms.is_none() {
            let tag = if res.exhausted_ms.is_some() { "gave-up-within-budget" } else { "did-not-recover" };
            out.violate(
                prop,
                tag,
                &format!("{k}:{}", fault_name(res.fault)),
                format!("outage {oi} ({:?}): {} attempts were announced of {max} configured, the stream did not re-establish itself (exhausted={:?}, victim error {:?})", res.fault, res.attempts.len(), res.exhausted_ms, logs.victim_final),
            );
        }
        if must_exhaust {
            if res.recovered_ms.is_some() && matches!(res.fault, Fault::Partition { .. }) {
                out.violate(prop, "recovered-beyond-budget", &k, format!("outage {oi}: recovered although all {max} attempts were made to fail"));
            } else if res.exhausted_ms.is_none() && res.recovered_ms.is_none() {
                out.violate(prop, "hang-instead-of-too-many-retries", &k, format!("outage {oi} ({:?}): all {max} attempts failed, neither recovery nor a too-many-retries report followed within the time budget", res.fault));
            }
        }
        // after exhaustion the victim's operation must report too-many-retries
        if res.exhausted_ms.is_some() {
            match &logs.victim_final {
                Some(e) if e.contains("Too many") => {}
                other => out.violate(prop, "exhaustion-not-reported", &k, format!("outage {oi}: the retry budget was exhausted, the stream's operation ended with {other:?} instead of too-many-retries")),
            }
        }
        // traffic started after recovery works
        if let (Some(_), Some((from, to))) = (res.recovered_ms, res.window) {
            if to > from + 300 {
                let in_window: Vec<&Op> = logs.ops.iter().filter(|o| o.started_ms >= from && o.started_ms <= to).collect();
                if in_window.is_empty() {
                    out.violate(prop, "no-traffic-after-recovery", &k, format!("outage {oi}: no operation could be started in the {} ms after recovery (the driver is stuck; last ops {:?})", to - from, logs.ops.iter().rev().take(2).map(|o| (o.idx, o.started_ms, o.finished_ms, o.ok)).collect::<Vec<_>>()));
                }
                for o in &in_window {
                    match sc.kind {
                        Kind::Publisher | Kind::Subscriber => {
                            if o.ok && !logs.received.iter().any(|(i, _)| *i == o.idx) {
                                out.violate(prop, "message-after-recovery-lost", &k, format!("outage {oi}: message {} was published at {} ms, after the stream had recovered at {:?} ms, and never reached the subscriber", o.idx, o.started_ms, res.recovered_ms));
                                break;
                            }
                            if !o.ok {
                                out.violate(prop, "operation-after-recovery-failed", &k, format!("outage {oi}: send {} started at {} ms after recovery failed: {}", o.idx, o.started_ms, o.err));
                                break;
                            }
                        }
                        Kind::Requestor | Kind::Replier => {
                            if !o.ok {
                                out.violate(prop, "request-after-recovery-failed", &k, format!("outage {oi}: request {} issued at {} ms, after the stream had recovered at {:?} ms, failed: {}", o.idx, o.started_ms, res.recovered_ms, o.err));
                                break;
                            }
                        }
                    }
                }
                out.probe("post_recovery_windows_checked");
            }
        }
    }
}

fn fault_name(f: Fault) -> &'static str {
    match f {
        Fault::Close => "close",
        Fault::Partition { .. } => "partition",
        Fault::Restart { .. } => "restart",
        Fault::Impostor { .. } => "impostor",
        Fault::CloseDuringRecovery { .. } => "close-during-recovery",
    }
}

fn judge_timing_from_events(prop: &str, sc: &RcScript, events: &[TraceEvent], out: &mut Outcome, beyond_horizon: bool) {
    let attempts: Vec<(u32, u32, u64)> = events.iter().filter(|e| e.message.contains("Attempting to reconnect")).map(|e| (field(e, "attempt_num").unwrap_or(0), field(e, "max_attempts").unwrap_or(0), e.at_ms)).collect();
    // the victim is the only actor that loses its connection in this family
    let res = OutageResult { fault: Fault::Partition { failed: sc.backoff.max_attempts + 1 }, injected_ms: 0, healed_ms: None, recovered_ms: None, exhausted_ms: None, attempts, endpoint_first_send: vec![], window: None, seq: vec![] };
    let logs = Logs::default();
    judge_timing_inner(prop, sc, &res, &logs, out, beyond_horizon, events);
}

fn judge_timing(prop: &str, sc: &RcScript, results: &[OutageResult], logs: &Logs, out: &mut Outcome) {
    if let Some(res) = results.first() {
        judge_timing_inner(prop, sc, res, logs, out, false, &[]);
    }
}

fn judge_timing_inner(prop: &str, sc: &RcScript, res: &OutageResult, logs: &Logs, out: &mut Outcome, beyond_horizon: bool, _events: &[TraceEvent]) {
    let k = format!("{:?}", sc.strategy_name()).to_lowercase();
    let max = sc.backoff.max_attempts;
    // attempts numbered 1.., each once
    for (i, (n, m, _)) in res.attempts.iter().enumerate() {
        if *n != i as u32 + 1 || *m != max {
            out.violate(prop, "attempt-numbering", &k, format!("attempt {} announced as {n}/{m}, configured max {max}", i + 1));
            return;
        }
    }
    if res.attempts.len() as u32 > max {
        out.violate(prop, "too-many-attempts", &k, format!("{} attempts announced, {max} configured", res.attempts.len()));
    }
    // delay of attempt n = time from its announcement to the start of the next step. The sleep
    // precedes the connect, and a failed connect takes the connect timeout, so
    //   t(n+1) - t(n) = d(n) + connect_time   with connect_time in [CONNECT_TIMEOUT, CONNECT_TIMEOUT + slack]
    // and for the last attempt the exhaustion report plays the role of t(n+1).
    let mut times: Vec<u64> = res.attempts.iter().map(|a| a.2).collect();
    if let Some(e) = res.exhausted_ms {
        times.push(e);
    }
    for i in 0..times.len().saturating_sub(1) {
        let n = i as u32 + 1;
        let gap = times[i + 1] - times[i];
        let law = sc.backoff.law_ms(n);
        let lo = law.saturating_add(CONNECT_TIMEOUT_MS as u128 - 50);
        let hi = law.saturating_add(CONNECT_TIMEOUT_MS as u128 + 1_500);
        if (gap as u128) < lo || (gap as u128) > hi {
            out.violate(
                prop,
                "delay-off-law",
                &format!("{k}:{}", if (gap as u128) < lo { "short" } else { "long" }),
                format!("attempt {n}: next step after {gap} ms; the law gives a delay of {law} ms (+ {CONNECT_TIMEOUT_MS} ms failed connect), config {:?}", sc.backoff),
            );
            return;
        }
        out.probe("delays_measured");
    }
    if beyond_horizon {
        // nothing further may be concluded except that no delay was shorter than the law so far
        return;
    }
    if res.attempts.len() as u32 == max && res.exhausted_ms.is_none() && res.recovered_ms.is_none() {
        // the last sleep may exceed the horizon; otherwise this is a hang
        let last_law = sc.backoff.law_ms(max.max(1));
        if last_law < HORIZON_MS as u128 / 2 {
            out.violate(prop, "no-exhaustion-report", &k, format!("all {max} attempts were announced, too-many-retries never followed (victim final {:?})", logs.victim_final));
        }
    }
    if (res.attempts.len() as u32) < max && res.exhausted_ms.is_some() {
        out.violate(prop, "schedule-too-short", &k, format!("the schedule ended after {} of {max} attempts", res.attempts.len()));
    }
    if max >= 60 {
        out.probe("schedules_with_60_or_more_attempts");
    }
}

impl RcScript {
    fn strategy_name(&self) -> String {
        match self.backoff.strategy {
            Strategy::Constant => "constant".into(),
            Strategy::Linear => "linear".into(),
            Strategy::Exponential(_) => "exponential".into(),
        }
    }
}

pub struct ReconnectFamily {
    pub name: &'static str,
    pub timing: bool,
}
pub static RECONNECT: ReconnectFamily = ReconnectFamily { name: "reconnect", timing: false };
pub static BACKOFF_TIMING: ReconnectFamily = ReconnectFamily { name: "backoff-timing", timing: true };

impl Family for ReconnectFamily {
    fn name(&self) -> &'static str {
        self.name
    }
    fn engine(&self) -> &'static str {
        "N"
    }
    fn generate(&self, _p: &str, tier: Tier, index: u64, _n: u64, rng: &mut Rng) -> Value {
        let sc = if self.timing { gen_c13(rng, tier == Tier::Thorough) } else { gen_c12(rng, index) };
        serde_json::to_value(sc).unwrap()
    }
    fn execute(&self, property: &str, body: &Value, opts: &ExecOpts) -> Outcome {
        match serde_json::from_value::<RcScript>(body.clone()) {
            Ok(sc) => execute(property, &sc, opts),
            Err(e) => {
                let mut o = Outcome::default();
                o.inconclusive = true;
                o.log.push(format!("bad script: {e}"));
                o
            }
        }
    }
    fn shrink(&self, body: &Value) -> Vec<Value> {
        let Ok(sc) = serde_json::from_value::<RcScript>(body.clone()) else { return vec![] };
        let mut out = vec![];
        for i in 0..sc.outages.len() {
            if sc.outages.len() > 1 {
                let mut c = sc.clone();
                c.outages.remove(i);
                out.push(c);
            }
        }
        if sc.net.loss_ppm > 0 || sc.net.jitter_ms > 0 {
            let mut c = sc.clone();
            c.net.loss_ppm = 0;
            c.net.jitter_ms = 0;
            out.push(c);
        }
        for (i, o) in sc.outages.iter().enumerate() {
            if o.quiet_ms_before > 0 {
                let mut c = sc.clone();
                c.outages[i].quiet_ms_before = 0;
                out.push(c);
            }
            if let Fault::Partition { failed } = o.fault {
                if failed > 0 {
                    let mut c = sc.clone();
                    c.outages[i].fault = Fault::Partition { failed: failed - 1 };
                    out.push(c);
                }
                let mut c = sc.clone();
                c.outages[i].fault = Fault::Close;
                out.push(c);
            }
            if let Fault::Impostor { .. } = o.fault {
                let mut c = sc.clone();
                c.outages.remove(i);
                out.push(c);
            }
            if let Fault::Restart { .. } = o.fault {
                let mut c = sc.clone();
                c.outages[i].fault = Fault::Close;
                out.push(c);
            }
        }
        if sc.backoff.max_ms.is_some() {
            let mut c = sc.clone();
            c.backoff.max_ms = None;
            out.push(c);
        }
        if sc.backoff.strategy != Strategy::Constant {
            let mut c = sc.clone();
            c.backoff.strategy = Strategy::Constant;
            out.push(c);
        }
        if sc.backoff.max_attempts > 1 {
            let mut c = sc.clone();
            c.backoff.max_attempts -= 1;
            out.push(c);
        }
        out.into_iter().map(|s| serde_json::to_value(s).unwrap()).collect()
    }
    fn watchdog_ms(&self) -> u64 {
        180_000
    }
    fn exhaustive_note(&self, _p: &str, tier: Tier) -> Option<String> {
        if self.timing {
            return None;
        }
        Some(format!(
            "fault placements: {} points = stream kind {{publisher, subscriber, requestor, replier}} x fault class of the last outage {{close hook, partition healed within the budget, partition held beyond the budget, short restart, long restart, impostor server (unrecoverable error), connection cut again while re-registering}} x repetition {{1 outage, 2-3, more than max_attempts}}; every point under ~{} seeded backoff configurations / quiet periods / network schedules",
            c12_points().len(),
            if tier == Tier::Quick { 6 } else { 400 }
        ))
    }
}
