//! C16 (N smoke) — graceful shutdown of the real server under live traffic: `Server::shutdown`
//! (reached through the H4 hook, the same code Ctrl-C runs) closes every topic's registration
//! channel and joins every router task; with subscribers that keep reading it must return.
//! C10 (N smoke) rides along: a second library replier on a bound topic surfaces the bind error and
//! can bind once the first one is gone.

use super::e2e::mild_net;
use super::net::NetCfg;
use super::sim::*;
use crate::core::*;
use crate::rng::{Hasher64, Rng};
use anyhow::Result as AResult;
use futures::{SinkExt, StreamExt};
use selium::keep_alive::BackoffStrategy;
use selium::prelude::*;
use selium::std::codecs::StringCodec;
use serde::{Deserialize, Serialize};
use serde_json::Value;
use std::cell::RefCell;
use std::rc::Rc;
use std::time::Duration;

#[derive(Clone, Debug, Serialize, Deserialize)]
pub struct ShutdownScript {
    pub net: NetCfg,
    pub rt_seed: u64,
    pub n_pubsub_topics: usize,
    pub n_subs: usize,
    pub n_reqrep_topics: usize,
    pub publish_period_ms: u64,
    pub shutdown_after_ms: u64,
    /// topics that only ever had one side (publisher only / subscriber only / requestor only)
    pub lonely: Vec<u8>,
    pub second_replier: bool,
    /// a registration is still in flight when shutdown starts: a peer that grants no flow-control
    /// credit on its registration stream, so the server's answer to it can never be delivered and
    /// the task handling it keeps its copy of the topic's registration sender
    #[serde(default)]
    pub inflight_registration: bool,
    /// C10 at the client: a standby library replier with a retry budget registers while the topic
    /// is bound, keeps being refused (a retryable bind error, with its backoff), and must take over
    /// once the bound replier has left
    #[serde(default)]
    pub standby_replier: bool,
}

pub fn gen_script(rng: &mut Rng) -> ShutdownScript {
    ShutdownScript {
        net: mild_net(rng),
        rt_seed: rng.next(),
        n_pubsub_topics: rng.usize(0, 3),
        n_subs: rng.usize(1, 2),
        n_reqrep_topics: rng.usize(0, 2),
        publish_period_ms: *rng.pick(&[1u64, 5, 20, 100]),
        shutdown_after_ms: *rng.pick(&[0u64, 50, 500, 2_000, 7_000]),
        lonely: (0..rng.usize(0, 3)).map(|_| rng.below(3) as u8).collect(),
        second_replier: rng.chance(1, 2),
        inflight_registration: rng.chance(1, 3),
        standby_replier: rng.chance(1, 2),
    }
}

#[derive(Debug, Default)]
pub struct Report {
    pub shutdown: Option<Result<u64, String>>,
    pub sent: Vec<usize>,
    pub received: Vec<Vec<usize>>,
    pub second_replier: Option<String>,
    pub rebind_ok: Option<bool>,
    pub standby_ok: Option<bool>,
    pub notes: Vec<String>,
}

async fn scenario(world: Rc<World>, sc: ShutdownScript) -> AResult<Report> {
    let mut rep = Report::default();
    world.start_server(ServerOpts::default())?;
    let backoff = BackoffStrategy::constant().with_max_attempts(0);
    let g = world.new_group();
    let w = world.clone();
    let b = backoff.clone();
    let a = ACTOR.scope(g, async move { w.client(b).await }).await?;
    let g2 = world.new_group();
    let w = world.clone();
    let b2 = backoff.clone();
    let c2 = ACTOR.scope(g2, async move { w.client(b2).await }).await?;
    let stop = Rc::new(RefCell::new(false));
    let mut sent_counters = vec![];
    let mut recv_lists = vec![];
    for t in 0..sc.n_pubsub_topics {
        let topic = format!("/live/topic{t}");
        for _ in 0..sc.n_subs {
            let mut s = ACTOR.scope(g2, c2.subscriber(&topic).with_decoder(StringCodec).open()).await?;
            let got: Rc<RefCell<Vec<usize>>> = Rc::new(RefCell::new(vec![]));
            let g3 = got.clone();
            tokio::task::spawn_local(ACTOR.scope(g2, async move {
                while let Some(Ok(m)) = s.next().await {
                    if let Ok(i) = m.parse::<usize>() {
                        g3.borrow_mut().push(i);
                    }
                }
            }));
            recv_lists.push((t, got));
        }
        tokio::time::sleep(Duration::from_millis(300)).await;
        let mut p = ACTOR.scope(g, a.publisher(&topic).with_encoder(StringCodec).open()).await?;
        let sent = Rc::new(RefCell::new(0usize));
        let s2 = sent.clone();
        let st = stop.clone();
        let period = sc.publish_period_ms;
        tokio::task::spawn_local(ACTOR.scope(g, async move {
            let mut i = 0usize;
            while !*st.borrow() {
                if p.send(format!("{i}")).await.is_err() {
                    break;
                }
                i += 1;
                *s2.borrow_mut() = i;
                tokio::time::sleep(Duration::from_millis(period)).await;
            }
        }));
        sent_counters.push(sent);
    }
    for t in 0..sc.n_reqrep_topics {
        let topic = format!("/live/rpc{t}");
        let mut r = ACTOR.scope(g2, c2.replier(&topic).with_request_decoder(StringCodec).with_reply_encoder(StringCodec).with_handler(|q: String| async move { Ok::<_, anyhow::Error>(format!("re:{q}")) }).open()).await?;
        let first_replier = tokio::task::spawn_local(ACTOR.scope(g2, async move {
            let _ = r.listen().await;
        }));
        tokio::time::sleep(Duration::from_millis(300)).await;
        if t == 0 && !sc.second_replier && sc.standby_replier {
            // 40 attempts, 300 ms apart: 12 virtual seconds of patience
            let gs = world.new_group();
            let w = world.clone();
            let standby_client = ACTOR.scope(gs, async move { w.client(BackoffStrategy::constant().with_step(Duration::from_millis(300)).with_max_attempts(40)).await }).await?;
            let mut rs = ACTOR.scope(gs, standby_client.replier(&topic).with_request_decoder(StringCodec).with_reply_encoder(StringCodec).with_handler(|q: String| async move { Ok::<_, anyhow::Error>(format!("standby:{q}")) }).open()).await?;
            let note = Rc::new(RefCell::new(None));
            let n2 = note.clone();
            tokio::task::spawn_local(ACTOR.scope(gs, async move {
                let _keep = standby_client;
                let r = rs.listen().await;
                *n2.borrow_mut() = Some(format!("{:?}", r.map_err(|e| e.to_string())));
            }));
            // refused a few times while the first replier is bound
            tokio::time::sleep(Duration::from_millis(2_000)).await;
            first_replier.abort();
            let mut q = ACTOR.scope(g2, c2.requestor(&topic).with_request_encoder(StringCodec).with_reply_decoder(StringCodec).with_request_timeout(Duration::from_secs(1))?.open()).await?;
            let mut ok = false;
            for i in 0..8 {
                if let Ok(ans) = ACTOR.scope(g2, q.request(format!("s{i}"))).await {
                    ok = ans == format!("standby:s{i}");
                    if ok {
                        break;
                    }
                }
                tokio::time::sleep(Duration::from_millis(500)).await;
            }
            rep.standby_ok = Some(ok);
            if !ok {
                rep.notes.push(format!("standby replier ended with {:?}", note.borrow()));
            }
        } else if t == 0 && sc.second_replier {
            // C10 smoke: a second replier on the bound topic must surface the bind error
            let mut r2 = ACTOR.scope(g, a.replier(&topic).with_request_decoder(StringCodec).with_reply_encoder(StringCodec).with_handler(|q: String| async move { Ok::<_, anyhow::Error>(format!("second:{q}")) }).open()).await?;
            let res = tokio::time::timeout(Duration::from_secs(10), ACTOR.scope(g, r2.listen())).await;
            rep.second_replier = Some(match res {
                Ok(Err(e)) => e.to_string(),
                Ok(Ok(())) => "listen returned Ok".into(),
                Err(_) => "still listening after 10 s".into(),
            });
            // and it can bind once the first one is gone
            first_replier.abort();
            tokio::time::sleep(Duration::from_millis(500)).await;
            let mut r3 = ACTOR.scope(g, a.replier(&topic).with_request_decoder(StringCodec).with_reply_encoder(StringCodec).with_handler(|q: String| async move { Ok::<_, anyhow::Error>(format!("third:{q}")) }).open()).await?;
            tokio::task::spawn_local(ACTOR.scope(g, async move {
                let _ = r3.listen().await;
            }));
            tokio::time::sleep(Duration::from_millis(300)).await;
            let mut q = ACTOR.scope(g2, c2.requestor(&topic).with_request_encoder(StringCodec).with_reply_decoder(StringCodec).with_request_timeout(Duration::from_secs(3))?.open()).await?;
            let ans = ACTOR.scope(g2, q.request("x".to_string())).await;
            rep.rebind_ok = Some(matches!(ans, Ok(ref s) if s == "third:x"));
            if rep.rebind_ok != Some(true) {
                rep.notes.push(format!("rebind request answered {:?}", ans.map_err(|e| e.to_string())));
            }
        } else {
            let mut q = ACTOR.scope(g, a.requestor(&topic).with_request_encoder(StringCodec).with_reply_decoder(StringCodec).with_request_timeout(Duration::from_secs(3))?.open()).await?;
            let st = stop.clone();
            tokio::task::spawn_local(ACTOR.scope(g, async move {
                let mut i = 0;
                while !*st.borrow() {
                    let _ = q.request(format!("{i}")).await;
                    i += 1;
                    tokio::time::sleep(Duration::from_millis(50)).await;
                }
            }));
        }
    }
    // one-sided topics
    let mut keep: Vec<Box<dyn std::any::Any>> = vec![];
    for (i, kind) in sc.lonely.iter().enumerate() {
        let topic = format!("/live/lonely{i}");
        match kind {
            0 => keep.push(Box::new(ACTOR.scope(g, a.publisher(&topic).with_encoder(StringCodec).open()).await?)),
            1 => keep.push(Box::new(ACTOR.scope(g, a.subscriber(&topic).with_decoder(StringCodec).open()).await?)),
            _ => keep.push(Box::new(ACTOR.scope(g, a.requestor(&topic).with_request_encoder(StringCodec).with_reply_decoder(StringCodec).open()).await?)),
        }
    }
    let mut _inflight_keep = None;
    if sc.inflight_registration {
        use selium_protocol::{Frame, SubscriberPayload, TopicName};
        let gz = world.new_group();
        let mut t = quinn::TransportConfig::default();
        t.stream_receive_window(quinn::VarInt::from_u32(0));
        let (ep, conn) = world.raw_trusted(gz, Some(t)).await?;
        let topic = TopicName::try_from(if sc.n_pubsub_topics > 0 { "/live/topic0" } else { "/live/inflight" }).map_err(|e| anyhow::anyhow!("{e}"))?;
        let s = tokio::time::timeout(Duration::from_secs(5), raw_open(&conn, Frame::RegisterSubscriber(SubscriberPayload { topic, retention_policy: 0, operations: vec![] }))).await;
        tokio::time::sleep(Duration::from_millis(300)).await;
        _inflight_keep = Some((ep, conn, s));
    }
    tokio::time::sleep(Duration::from_millis(sc.shutdown_after_ms)).await;
    let server = world.server.borrow().clone();
    if let Some(server) = server {
        let t0 = virtual_ms();
        let r = tokio::time::timeout(Duration::from_secs(30), server.verif_shutdown()).await;
        rep.shutdown = Some(match r {
            Ok(Ok(())) => Ok(virtual_ms() - t0),
            Ok(Err(e)) => Err(format!("{e:#}")),
            Err(_) => Err("TIMEOUT: shutdown did not return within 30 virtual seconds".into()),
        });
    }
    *stop.borrow_mut() = true;
    tokio::time::sleep(Duration::from_millis(500)).await;
    rep.sent = sent_counters.iter().map(|s| *s.borrow()).collect();
    rep.received = recv_lists.iter().map(|(_, g)| g.borrow().clone()).collect();
    drop(keep);
    Ok(rep)
}

pub fn execute(prop: &str, sc: &ShutdownScript, opts: &ExecOpts) -> Outcome {
    let mut out = Outcome::default();
    let sc2 = sc.clone();
    let res = run_world(sc.net, sc.rt_seed, Duration::from_secs(600), move |world| scenario(world, sc2));
    let mut th = Hasher64::default();
    match res {
        Err(e) => {
            out.inconclusive = true;
            out.log.push(format!("world failed: {e:#}"));
        }
        Ok(r) => {
            fold(&mut out, prop, &r);
            match &r.value {
                None => out.violate(prop, "scenario-timeout", "shutdown-live", "the scenario did not finish".into()),
                Some(Err(e)) => {
                    out.inconclusive = true;
                    out.log.push(format!("setup error: {e:#}"));
                }
                Some(Ok(rep)) => {
                    match &rep.shutdown {
                        Some(Ok(ms)) => {
                            out.probe("shutdown_returned");
                            let e = out.probes.entry("max_shutdown_ms".into()).or_insert(0);
                            *e = (*e).max(*ms);
                            th.word(1);
                        }
                        Some(Err(e)) if e.starts_with("TIMEOUT") => {
                            out.violate(prop, "shutdown-hang", "server", format!("Server::shutdown did not return within 30 virtual seconds with {} pub/sub topics, {} request/reply topics, one-sided topics {:?}, all subscribers reading", sc.n_pubsub_topics, sc.n_reqrep_topics, sc.lonely));
                        }
                        Some(Err(e)) => out.violate(prop, "shutdown-error", "server", format!("Server::shutdown failed: {e}")),
                        None => {}
                    }
                    // what subscribers saw is gap-free from their first message on
                    for got in &rep.received {
                        for w in got.windows(2) {
                            if w[1] != w[0] + 1 {
                                out.violate(prop, "gap-before-shutdown", "pubsub", format!("a subscriber saw message {} right after {}", w[1], w[0]));
                                break;
                            }
                        }
                    }
                    if let Some(s) = &rep.second_replier {
                        out.probe("second_replier_attempted");
                        // the C10 clause at the client: the bind error (retryable) ends in too-many-retries with a 0-attempt budget
                        if s.contains("still listening") || s.contains("returned Ok") {
                            out.violate(prop, "second-replier-not-refused", "client", format!("a second library replier on a bound topic: {s}"));
                        }
                    }
                    // judged on a loss-free network only: the new replier registers 500 ms after the
                    // first one was dropped, and under datagram loss the server may legitimately
                    // still hold the first one bound at that moment (the newcomer is then refused,
                    // as the property says)
                    if rep.rebind_ok == Some(false) && sc.net.loss_ppm == 0 {
                        out.violate(prop, "rebind-failed", "client", format!("after the first replier left, a new library replier did not serve requests ({:?})", rep.notes));
                    }
                    if rep.rebind_ok == Some(true) {
                        out.probe("rebind_served");
                    }
                    if rep.standby_ok == Some(false) && sc.net.loss_ppm == 0 {
                        out.violate(prop, "standby-replier-did-not-take-over", "client", format!("a library replier with 40 attempts 300 ms apart was standing by on a bound topic; the bound replier left after 2 s and the standby did not serve requests within 8 s ({:?})", rep.notes));
                    }
                    if rep.standby_ok == Some(true) {
                        out.probe("standby_replier_took_over");
                    }
                    out.fault("graceful_shutdown_under_traffic");
                    out.nontrivial = sc.n_pubsub_topics + sc.n_reqrep_topics + sc.lonely.len() > 0;
                    out.steps = rep.sent.iter().sum::<usize>() as u64;
                    if opts.want_log {
                        out.log.push(format!("{rep:?}"));
                    }
                }
            }
            th.word(r.net_trace);
        }
    }
    out.trace_hash = th.finish();
    out.full_hash = th.finish();
    out
}

pub struct ShutdownFamily;
pub static SHUTDOWN_LIVE: ShutdownFamily = ShutdownFamily;

impl Family for ShutdownFamily {
    fn name(&self) -> &'static str {
        "shutdown-live"
    }
    fn engine(&self) -> &'static str {
        "N"
    }
    fn generate(&self, _p: &str, _t: Tier, _i: u64, _n: u64, rng: &mut Rng) -> Value {
        serde_json::to_value(gen_script(rng)).unwrap()
    }
    fn execute(&self, property: &str, body: &Value, opts: &ExecOpts) -> Outcome {
        match serde_json::from_value::<ShutdownScript>(body.clone()) {
            Ok(sc) => execute(property, &sc, opts),
            Err(e) => {
                let mut o = Outcome::default();
                o.inconclusive = true;
                o.log.push(format!("bad script: {e}"));
                o
            }
        }
    }
    fn shrink(&self, body: &Value) -> Vec<Value> {
        let Ok(sc) = serde_json::from_value::<ShutdownScript>(body.clone()) else { return vec![] };
        let mut out = vec![];
        if sc.inflight_registration {
            let mut c = sc.clone();
            c.inflight_registration = false;
            out.push(c);
        }
        if sc.n_pubsub_topics > 0 {
            let mut c = sc.clone();
            c.n_pubsub_topics -= 1;
            out.push(c);
        }
        if sc.n_reqrep_topics > 0 {
            let mut c = sc.clone();
            c.n_reqrep_topics -= 1;
            out.push(c);
        }
        if !sc.lonely.is_empty() {
            let mut c = sc.clone();
            c.lonely.pop();
            out.push(c);
        }
        if sc.standby_replier {
            let mut c = sc.clone();
            c.standby_replier = false;
            out.push(c);
        }
        if sc.second_replier {
            let mut c = sc.clone();
            c.second_replier = false;
            out.push(c);
        }
        out.into_iter().map(|s| serde_json::to_value(s).unwrap()).collect()
    }
    fn watchdog_ms(&self) -> u64 {
        60_000
    }
}
