//! N — net-sim: the real client library, the real server, real quinn + rustls, all in one process
//! on one thread, over an in-memory UDP network with seeded faults and a paused (virtual) clock.
pub mod net;
pub mod sim;
pub mod smoke;
pub mod e2e;
pub mod hostile;
pub mod reqrep_e2e;
pub mod reconnect;
pub mod names;
pub mod mtls;
pub mod stall;
pub mod frames;
pub mod shutdown;
pub mod multitopic;
pub mod peerloss;
pub mod rrslow;
pub mod rereg;
pub mod hostile_server;
pub mod chaos;
pub mod regrace;
pub mod rrbulk;
pub mod rejstall;
