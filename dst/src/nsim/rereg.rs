//! C12 ("re-registers on its topic with the same settings") — the real client library against an
//! *observer* in place of the server: a raw QUIC endpoint with the server's TLS configuration that
//! answers every registration with `Ok` and records the registration frame. After each H1 close
//! the victim stream must come back with a registration frame equal to its first one: same role,
//! same topic, same retention policy, same operations. (The real server ignores retention and
//! operations in this version, so traffic alone cannot show whether they survive a reconnect.)

use super::net::NetCfg;
use super::reconnect::Kind;
use super::sim::*;
use crate::core::*;
use crate::rng::{Hasher64, Rng};
use anyhow::Result as AResult;
use futures::{SinkExt, StreamExt};
use selium::keep_alive::BackoffStrategy;
use selium::prelude::*;
use selium::std::codecs::StringCodec;
use selium_protocol::Frame;
use serde::{Deserialize, Serialize};
use serde_json::Value;
use std::cell::RefCell;
use std::rc::Rc;
use std::time::Duration;

#[derive(Clone, Debug, Serialize, Deserialize)]
pub struct RrgScript {
    pub net: NetCfg,
    pub rt_seed: u64,
    pub kind: Kind,
    pub topic: String,
    pub retention_s: u64,
    /// (is_map, module path)
    pub ops: Vec<(bool, String)>,
    pub n_outages: usize,
    pub quiet_ms: u64,
}

pub fn gen_script(rng: &mut Rng) -> RrgScript {
    let kind = *rng.pick(&[Kind::Publisher, Kind::Subscriber, Kind::Publisher, Kind::Subscriber, Kind::Requestor, Kind::Replier]);
    let n_ops = *rng.pick(&[0usize, 1, 2, 3]);
    RrgScript {
        net: NetCfg { seed: rng.next(), loss_ppm: 0, dup_ppm: 0, min_delay_ms: rng.range(1, 12) as u32, jitter_ms: *rng.pick(&[0u32, 4]) },
        rt_seed: rng.next(),
        kind,
        topic: rng.pick(&["/acme/stocks", "/acme/stocks2", "/abc/d_e-f", "/AAA/zzz"]).to_string(),
        retention_s: *rng.pick(&[0u64, 1, 5, 3_600, 86_400 * 365]),
        ops: (0..n_ops).map(|i| (rng.chance(1, 2), format!("/modules/op{}_{}.wasm", i, rng.below(100)))).collect(),
        n_outages: rng.usize(1, 4),
        quiet_ms: *rng.pick(&[0u64, 100, 700, 2_000]),
    }
}

type Seen = Rc<RefCell<Vec<(u64, String)>>>;

/// The observer: accepts every connection and every stream, records the first frame of each stream
/// (its Debug form, which spells out every field), answers `Ok`, then swallows whatever follows.
fn start_observer(world: &Rc<World>, seen: Seen) -> AResult<()> {
    use quinn::{Endpoint, EndpointConfig, IdleTimeout, VarInt};
    use selium_protocol::BiStream;
    use selium_server::quic::{load_root_store, read_certs, server_config, ConfigOptions};
    let certs = world.certs.clone();
    let root_store = load_root_store(certs.server.join("ca.der"))?;
    let (chain, key) = read_certs(certs.server.join("localhost.der"), certs.server.join("localhost.key.der"))?;
    let config = server_config(root_store, chain, key, ConfigOptions { keylog: false, stateless_retry: false, max_idle_timeout: IdleTimeout::from(VarInt::from_u32(8_000)) })?;
    let sock = world.net.bind_server();
    let endpoint = Endpoint::new_with_abstract_socket(EndpointConfig::default(), Some(config), sock, std::sync::Arc::new(super::net::SimRuntime))?;
    tokio::task::spawn_local(async move {
        while let Some(connecting) = endpoint.accept().await {
            let seen = seen.clone();
            tokio::task::spawn_local(async move {
                let Ok(conn) = connecting.await else { return };
                while let Ok(stream) = conn.accept_bi().await {
                    let mut s = BiStream::from(stream);
                    let seen = seen.clone();
                    tokio::task::spawn_local(async move {
                        if let Some(Ok(first)) = s.next().await {
                            seen.borrow_mut().push((virtual_ms(), format!("{first:?}")));
                            poke();
                            if s.send(Frame::Ok).await.is_err() {
                                return;
                            }
                        }
                        while let Some(Ok(_)) = s.next().await {}
                    });
                }
            });
        }
    });
    Ok(())
}

#[derive(Debug, Default)]
pub struct RrgReport {
    pub registrations: Vec<(u64, String)>,
    pub outages_injected: usize,
    pub victim_final: Option<String>,
}

async fn scenario(world: Rc<World>, sc: RrgScript) -> AResult<RrgReport> {
    let mut rep = RrgReport::default();
    let seen: Seen = Rc::new(RefCell::new(vec![]));
    start_observer(&world, seen.clone())?;
    let g = world.new_group();
    let w = world.clone();
    let backoff = BackoffStrategy::constant().with_step(Duration::from_millis(100)).with_max_attempts(8);
    let victim = ACTOR.scope(g, async move { w.client_with(&w.certs.clone(), backoff, 1_000).await }).await?;
    let fin: Rc<RefCell<Option<String>>> = Rc::new(RefCell::new(None));
    let topic = sc.topic.as_str();
    macro_rules! settings {
        ($b:expr) => {{
            let mut b = $b;
            for (is_map, path) in &sc.ops {
                b = if *is_map { b.map(path) } else { b.filter(path) };
            }
            if sc.retention_s > 0 {
                b = b.retain(Duration::from_secs(sc.retention_s))?;
            }
            b
        }};
    }
    match sc.kind {
        Kind::Publisher => {
            let mut p = ACTOR.scope(g, settings!(victim.publisher(topic).with_encoder(StringCodec)).open()).await?;
            let f = fin.clone();
            tokio::task::spawn_local(ACTOR.scope(g, async move {
                let mut i = 0u64;
                loop {
                    if let Err(e) = p.send(format!("{i}")).await {
                        *f.borrow_mut() = Some(e.to_string());
                        break;
                    }
                    i += 1;
                    tokio::time::sleep(Duration::from_millis(150)).await;
                }
            }));
        }
        Kind::Subscriber => {
            let mut s = ACTOR.scope(g, settings!(victim.subscriber(topic).with_decoder(StringCodec)).open()).await?;
            let f = fin.clone();
            tokio::task::spawn_local(ACTOR.scope(g, async move {
                loop {
                    match s.next().await {
                        Some(Ok(_)) => {}
                        Some(Err(e)) => {
                            *f.borrow_mut() = Some(e.to_string());
                            break;
                        }
                        None => {
                            *f.borrow_mut() = Some("stream ended".into());
                            break;
                        }
                    }
                }
            }));
        }
        Kind::Requestor => {
            let mut q = ACTOR.scope(g, victim.requestor(topic).with_request_encoder(StringCodec).with_reply_decoder(StringCodec).with_request_timeout(Duration::from_millis(400))?.open()).await?;
            let f = fin.clone();
            tokio::task::spawn_local(ACTOR.scope(g, async move {
                let mut i = 0u64;
                loop {
                    // the observer never answers: a timeout is the normal outcome
                    if let Err(e) = q.request(format!("{i}")).await {
                        let e = e.to_string();
                        if e.contains("Too many") || e.contains("Failed to open stream") {
                            *f.borrow_mut() = Some(e);
                            break;
                        }
                    }
                    i += 1;
                    tokio::time::sleep(Duration::from_millis(100)).await;
                }
            }));
        }
        Kind::Replier => {
            let mut r = ACTOR.scope(g, victim.replier(topic).with_request_decoder(StringCodec).with_reply_encoder(StringCodec).with_handler(|q: String| async move { Ok::<_, anyhow::Error>(q) }).open()).await?;
            let f = fin.clone();
            tokio::task::spawn_local(ACTOR.scope(g, async move {
                let res = r.listen().await;
                *f.borrow_mut() = Some(match res {
                    Ok(()) => "listen returned Ok".into(),
                    Err(e) => e.to_string(),
                });
            }));
        }
    }
    tokio::time::sleep(Duration::from_millis(500)).await;
    let notify = event_notify();
    for k in 0..sc.n_outages {
        tokio::time::sleep(Duration::from_millis(sc.quiet_ms)).await;
        if fin.borrow().is_some() {
            break;
        }
        victim.verif_close_connection().await;
        rep.outages_injected += 1;
        // until the re-registration shows up at the observer
        let deadline = virtual_ms() + 30_000;
        while seen.borrow().len() < k + 2 && virtual_ms() < deadline && fin.borrow().is_none() {
            tokio::select! {
                _ = notify.notified() => {}
                _ = tokio::time::sleep(Duration::from_millis(200)) => {}
            }
        }
    }
    tokio::time::sleep(Duration::from_millis(500)).await;
    rep.registrations = seen.borrow().clone();
    rep.victim_final = fin.borrow().clone();
    Ok(rep)
}

pub fn execute(prop: &str, sc: &RrgScript, opts: &ExecOpts) -> Outcome {
    let mut out = Outcome::default();
    let sc2 = sc.clone();
    let res = run_world(sc.net, sc.rt_seed, Duration::from_secs(900), move |world| scenario(world, sc2));
    let mut th = Hasher64::default();
    let k = format!("{:?}", sc.kind).to_lowercase();
    match res {
        Err(e) => {
            out.inconclusive = true;
            out.log.push(format!("world failed: {e:#}"));
        }
        Ok(r) => {
            fold(&mut out, prop, &r);
            match &r.value {
                None => out.violate(prop, "scenario-timeout", &format!("rereg:{k}"), "the scenario did not finish within 900 virtual seconds".into()),
                Some(Err(e)) => {
                    out.inconclusive = true;
                    out.log.push(format!("setup error: {e:#}"));
                }
                Some(Ok(rep)) => {
                    th.word(rep.registrations.len() as u64);
                    out.fault_n("connection_closed_by_hook", rep.outages_injected as u64);
                    if rep.registrations.is_empty() {
                        out.inconclusive = true;
                    } else {
                        let first = &rep.registrations[0].1;
                        // what the application configured, laid out independently of the builders
                        if let Ok(topic) = selium_protocol::TopicName::try_from(sc.topic.as_str()) {
                            let operations: Vec<selium_protocol::Operation> = sc.ops.iter().map(|(m, p)| if *m { selium_protocol::Operation::Map(p.clone()) } else { selium_protocol::Operation::Filter(p.clone()) }).collect();
                            let retention_policy = sc.retention_s * 1_000;
                            let configured = match sc.kind {
                                Kind::Publisher => Some(format!("{:?}", Frame::RegisterPublisher(selium_protocol::PublisherPayload { topic, retention_policy, operations }))),
                                Kind::Subscriber => Some(format!("{:?}", Frame::RegisterSubscriber(selium_protocol::SubscriberPayload { topic, retention_policy, operations }))),
                                _ => None,
                            };
                            if let Some(c) = configured {
                                if &c != first {
                                    out.violate(prop, "registration-differs-from-configuration", &format!("rereg:{k}"), format!("the stream was configured as {c}; it registered as {first}"));
                                }
                            }
                        }
                        for (i, (at, f)) in rep.registrations.iter().enumerate().skip(1) {
                            if f != first {
                                out.violate(prop, "re-registration-differs", &format!("rereg:{k}"), format!("registration {i} (at {at} ms, after a connection loss) is {f}; the stream was opened with {first}"));
                                break;
                            }
                        }
                        if rep.registrations.len() < 1 + rep.outages_injected {
                            out.violate(prop, "no-re-registration", &format!("rereg:{k}"), format!("{} connection losses were injected while the server stayed reachable; {} registrations arrived in all (victim: {:?})", rep.outages_injected, rep.registrations.len(), rep.victim_final));
                        }
                        out.probe_n("re_registrations_compared", rep.registrations.len().saturating_sub(1) as u64);
                        out.nontrivial = rep.registrations.len() > 1;
                    }
                    out.steps = rep.registrations.len() as u64;
                    if opts.want_log {
                        out.log.push(format!("{rep:?}"));
                    }
                }
            }
            th.word(r.net_trace);
        }
    }
    out.trace_hash = th.finish();
    out.full_hash = th.finish();
    out
}

pub struct Rereg;
pub static REREG: Rereg = Rereg;

impl Family for Rereg {
    fn name(&self) -> &'static str {
        "re-registration-observer"
    }
    fn engine(&self) -> &'static str {
        "N"
    }
    fn generate(&self, _p: &str, _t: Tier, _i: u64, _n: u64, rng: &mut Rng) -> Value {
        serde_json::to_value(gen_script(rng)).unwrap()
    }
    fn execute(&self, property: &str, body: &Value, opts: &ExecOpts) -> Outcome {
        match serde_json::from_value::<RrgScript>(body.clone()) {
            Ok(sc) => execute(property, &sc, opts),
            Err(e) => {
                let mut o = Outcome::default();
                o.inconclusive = true;
                o.log.push(format!("bad script: {e}"));
                o
            }
        }
    }
    fn shrink(&self, body: &Value) -> Vec<Value> {
        let Ok(sc) = serde_json::from_value::<RrgScript>(body.clone()) else { return vec![] };
        let mut out = vec![];
        if sc.n_outages > 1 {
            let mut c = sc.clone();
            c.n_outages = 1;
            out.push(c);
        }
        for i in 0..sc.ops.len() {
            let mut c = sc.clone();
            c.ops.remove(i);
            out.push(c);
        }
        if sc.retention_s > 0 {
            let mut c = sc.clone();
            c.retention_s = 0;
            out.push(c);
        }
        if sc.quiet_ms > 0 {
            let mut c = sc.clone();
            c.quiet_ms = 0;
            out.push(c);
        }
        out.into_iter().map(|s| serde_json::to_value(s).unwrap()).collect()
    }
    fn watchdog_ms(&self) -> u64 {
        40_000
    }
}
