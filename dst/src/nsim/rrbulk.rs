//! Bulk request/reply through the whole stack (C04 and C11): many clones of one library requestor
//! send large requests at once to the *library* replier, which serves one request at a time (it
//! reads a request, runs the handler, writes the reply, and only then reads the next request).
//! Requests and replies of a few hundred kilobytes fill the flow-control windows in both
//! directions, so every component that waits for its peer to read while not reading itself shows.
//!
//! Judged under C04: every `request()` returns — with its own reply or with the timeout error —
//! no later than its timeout plus a margin; a call that never returns is the violation (the
//! property promises a timeout error to a request whose reply does not arrive in time, whatever the
//! reason it does not arrive).
//! Judged under C11: all of this is well-formed traffic below the frame limit; afterwards the topic
//! must still serve other peers: a fresh requestor's small request is answered.

use super::net::NetCfg;
use super::sim::*;
use crate::core::*;
use crate::rng::{Hasher64, Rng};
use anyhow::Result as AResult;
use selium::keep_alive::BackoffStrategy;
use selium::prelude::*;
use selium::std::codecs::StringCodec;
use selium::std::errors::SeliumError;
use serde::{Deserialize, Serialize};
use serde_json::Value;
use std::cell::RefCell;
use std::rc::Rc;
use std::time::Duration;

#[derive(Clone, Debug, Serialize, Deserialize)]
pub struct BulkScript {
    pub net: NetCfg,
    pub rt_seed: u64,
    pub clones: usize,
    pub calls_per_clone: usize,
    pub request_bytes: usize,
    /// 0: the reply is a short digest of the request; otherwise the reply has this many bytes
    pub reply_bytes: usize,
    pub timeout_ms: u64,
}

pub fn gen_script(rng: &mut Rng) -> BulkScript {
    let request_bytes = *rng.pick(&[20_000usize, 100_000, 200_000, 400_000, 400_000, 900_000]);
    let clones = *rng.pick(&[2usize, 8, 16, 24, 32]);
    BulkScript {
        net: NetCfg { seed: rng.next(), loss_ppm: 0, dup_ppm: 0, min_delay_ms: rng.range(1, 5) as u32, jitter_ms: *rng.pick(&[0u32, 0, 3]) },
        rt_seed: rng.next(),
        clones,
        calls_per_clone: rng.usize(1, 3),
        request_bytes,
        reply_bytes: *rng.pick(&[0usize, 0, request_bytes, 300_000]),
        timeout_ms: *rng.pick(&[5_000u64, 10_000, 20_000]),
    }
}

#[derive(Debug, Default, Clone)]
pub struct BulkReport {
    /// (call label, issued, returned (None: still pending at the end), outcome)
    pub calls: Vec<(String, u64, Option<u64>, String)>,
    /// the fresh requestor's probe after the bulk phase: Some(true) answered
    pub probe_ok: Option<bool>,
    pub probe_note: String,
}

fn request_text(c: usize, j: usize, n: usize) -> String {
    let mut s = format!("B{c}:{j};");
    while s.len() < n {
        s.push('q');
    }
    s
}

fn reply_for(req: &str, n: usize) -> String {
    let label = req.split(';').next().unwrap_or("");
    let mut s = format!("re:{label}:{};", req.len());
    while s.len() < n {
        s.push('r');
    }
    s
}

async fn scenario(world: Rc<World>, sc: BulkScript) -> AResult<BulkReport> {
    world.start_server(ServerOpts::default())?;
    let no_retry = BackoffStrategy::constant().with_max_attempts(0);
    let gr = world.new_group();
    let w = world.clone();
    let b = no_retry.clone();
    let rc = ACTOR.scope(gr, async move { w.client(b).await }).await?;
    let reply_bytes = sc.reply_bytes;
    let mut replier = ACTOR
        .scope(gr, rc.replier("/bulk/rpc").with_request_decoder(StringCodec).with_reply_encoder(StringCodec).with_handler(move |q: String| async move { Ok::<_, anyhow::Error>(reply_for(&q, reply_bytes)) }).open())
        .await?;
    tokio::task::spawn_local(ACTOR.scope(gr, async move {
        let _ = replier.listen().await;
    }));
    tokio::time::sleep(Duration::from_millis(300)).await;
    let gq = world.new_group();
    let w = world.clone();
    let b = no_retry.clone();
    let qc = ACTOR.scope(gq, async move { w.client(b).await }).await?;
    let base = ACTOR
        .scope(gq, qc.requestor("/bulk/rpc").with_request_encoder(StringCodec).with_reply_decoder(StringCodec).with_request_timeout(Duration::from_millis(sc.timeout_ms))?.open())
        .await?;
    tokio::time::sleep(Duration::from_millis(300)).await;
    let calls: Rc<RefCell<Vec<(String, u64, Option<u64>, String)>>> = Rc::new(RefCell::new(vec![]));
    let mut tasks = vec![];
    for c in 0..sc.clones {
        let mut req = base.clone();
        let calls = calls.clone();
        let (n, per, want_reply) = (sc.request_bytes, sc.calls_per_clone, sc.reply_bytes);
        tasks.push(tokio::task::spawn_local(ACTOR.scope(gq, async move {
            for j in 0..per {
                let text = request_text(c, j, n);
                let label = format!("B{c}:{j}");
                let idx = {
                    let mut v = calls.borrow_mut();
                    v.push((label.clone(), virtual_ms(), None, "pending".into()));
                    v.len() - 1
                };
                let r = req.request(text.clone()).await;
                let outcome = match &r {
                    Ok(v) if *v == reply_for(&text, want_reply) => "ok".to_string(),
                    Ok(v) => format!("WRONG:{}", v.chars().take(30).collect::<String>()),
                    Err(SeliumError::RequestTimeout) => "timeout".to_string(),
                    Err(e) => format!("err:{e}"),
                };
                let mut v = calls.borrow_mut();
                v[idx].2 = Some(virtual_ms());
                v[idx].3 = outcome;
            }
        })));
    }
    // every call has a deadline of its own: timeout per call, calls of one clone in sequence
    let budget = sc.timeout_ms * sc.calls_per_clone as u64 + 5_000;
    let all = async {
        for t in tasks.iter_mut() {
            let _ = t.await;
        }
    };
    let _ = tokio::time::timeout(Duration::from_millis(budget), all).await;
    let mut rep = BulkReport { calls: calls.borrow().clone(), probe_ok: None, probe_note: String::new() };
    // quiet period, then a fresh peer on the same topic
    tokio::time::sleep(Duration::from_secs(30)).await;
    let gp = world.new_group();
    let w = world.clone();
    let pc = ACTOR.scope(gp, async move { w.client(no_retry).await }).await?;
    let probe = async {
        let mut p = ACTOR.scope(gp, pc.requestor("/bulk/rpc").with_request_encoder(StringCodec).with_reply_decoder(StringCodec).with_request_timeout(Duration::from_secs(10))?.open()).await?;
        let r = ACTOR.scope(gp, p.request("probe;".to_string())).await;
        Ok::<_, anyhow::Error>(r)
    };
    match tokio::time::timeout(Duration::from_secs(20), probe).await {
        Ok(Ok(Ok(v))) => {
            rep.probe_ok = Some(v == reply_for("probe;", reply_bytes));
            rep.probe_note = format!("answered with {} bytes", v.len());
        }
        Ok(Ok(Err(e))) => {
            rep.probe_ok = Some(false);
            rep.probe_note = format!("request failed: {e}");
        }
        Ok(Err(e)) => {
            rep.probe_ok = Some(false);
            rep.probe_note = format!("could not open a requestor: {e:#}");
        }
        Err(_) => {
            rep.probe_ok = Some(false);
            rep.probe_note = "neither open() nor request() returned within 20 virtual seconds".into();
        }
    }
    Ok(rep)
}

pub fn execute(prop: &str, sc: &BulkScript, opts: &ExecOpts) -> Outcome {
    let mut out = Outcome::default();
    let sc2 = sc.clone();
    let res = run_world(sc.net, sc.rt_seed, Duration::from_secs(3600), move |world| scenario(world, sc2));
    let mut th = Hasher64::default();
    match res {
        Err(e) => {
            out.inconclusive = true;
            out.log.push(format!("world failed: {e:#}"));
        }
        Ok(r) => {
            fold(&mut out, prop, &r);
            match &r.value {
                None => out.violate(prop, "scenario-timeout", "bulk", "the scenario did not finish within 3600 virtual seconds".into()),
                Some(Err(e)) => setup_failed(&mut out, prop, "bulk", &sc.net, e),
                Some(Ok(rep)) => {
                    let volume = sc.clones * sc.calls_per_clone * sc.request_bytes;
                    out.fault_n("bulk_request_bytes_offered_at_once", (sc.clones * sc.request_bytes) as u64);
                    let mut n_ok = 0;
                    let mut n_timeout = 0;
                    for (label, issued, returned, outcome) in &rep.calls {
                        th.bytes(outcome.as_bytes());
                        match returned {
                            None => {
                                if prop != "C11" {
                                    out.violate(prop, "request-never-returns", "bulk", format!("call {label} ({} request bytes, timeout {} ms) was issued at {issued} ms and had returned neither a reply nor the timeout error {} ms later ({} clones x {} calls, replies of {} bytes)", sc.request_bytes, sc.timeout_ms, r.virtual_ms.saturating_sub(*issued), sc.clones, sc.calls_per_clone, sc.reply_bytes));
                                }
                                break;
                            }
                            Some(t) => {
                                let elapsed = t - issued;
                                match outcome.as_str() {
                                    "ok" => n_ok += 1,
                                    "timeout" => {
                                        n_timeout += 1;
                                        if prop != "C11" && elapsed > sc.timeout_ms + 2_000 {
                                            out.violate(prop, "timeout-too-late", "bulk", format!("call {label} failed with the timeout error only after {elapsed} ms, configured {} ms", sc.timeout_ms));
                                        }
                                    }
                                    o if o.starts_with("WRONG") => {
                                        if prop != "C11" {
                                            out.violate(prop, "wrong-reply", "bulk", format!("call {label} returned Ok with {o}"));
                                        }
                                    }
                                    o => {
                                        if prop != "C11" {
                                            out.violate(prop, "unexpected-error", "bulk", format!("call {label} failed with {o}"));
                                        }
                                    }
                                }
                            }
                        }
                    }
                    out.probe_n("bulk_calls_answered", n_ok);
                    out.probe_n("bulk_calls_timed_out", n_timeout);
                    if prop == "C11" && rep.probe_ok == Some(false) {
                        out.violate(prop, "topic-unusable-after-legal-traffic", "bulk", format!("{} clones sent {} requests of {} bytes each to a library replier (replies of {} bytes; {} answered, {} timed out); 30 virtual seconds later a fresh requestor on the topic got no answer to a 6-byte request: {}", sc.clones, sc.clones * sc.calls_per_clone, sc.request_bytes, sc.reply_bytes, n_ok, n_timeout, rep.probe_note));
                    }
                    if rep.probe_ok == Some(true) {
                        out.probe("topic_serves_a_fresh_requestor_after_bulk");
                    }
                    out.nontrivial = volume > 1_500_000;
                    out.steps = rep.calls.len() as u64;
                    if opts.want_log {
                        for c in &rep.calls {
                            out.log.push(format!("{c:?}"));
                        }
                        out.log.push(format!("probe: {:?} {}", rep.probe_ok, rep.probe_note));
                    }
                }
            }
            th.word(r.net_trace);
        }
    }
    out.trace_hash = th.finish();
    out.full_hash = th.finish();
    out
}

pub struct Bulk;
pub static BULK: Bulk = Bulk;

impl Family for Bulk {
    fn name(&self) -> &'static str {
        "bulk-request-reply"
    }
    fn engine(&self) -> &'static str {
        "N"
    }
    fn generate(&self, _p: &str, _t: Tier, _i: u64, _n: u64, rng: &mut Rng) -> Value {
        serde_json::to_value(gen_script(rng)).unwrap()
    }
    fn execute(&self, property: &str, body: &Value, opts: &ExecOpts) -> Outcome {
        match serde_json::from_value::<BulkScript>(body.clone()) {
            Ok(sc) => execute(property, &sc, opts),
            Err(e) => {
                let mut o = Outcome::default();
                o.inconclusive = true;
                o.log.push(format!("bad script: {e}"));
                o
            }
        }
    }
    fn shrink(&self, body: &Value) -> Vec<Value> {
        let Ok(sc) = serde_json::from_value::<BulkScript>(body.clone()) else { return vec![] };
        let mut out = vec![];
        if sc.clones > 2 {
            let mut c = sc.clone();
            c.clones = sc.clones / 2;
            out.push(c);
            let mut c = sc.clone();
            c.clones = sc.clones - 1;
            out.push(c);
        }
        if sc.calls_per_clone > 1 {
            let mut c = sc.clone();
            c.calls_per_clone = 1;
            out.push(c);
        }
        if sc.request_bytes > 20_000 {
            let mut c = sc.clone();
            c.request_bytes = sc.request_bytes / 2;
            out.push(c);
        }
        if sc.reply_bytes > 0 {
            let mut c = sc.clone();
            c.reply_bytes = 0;
            out.push(c);
        }
        if sc.net.jitter_ms > 0 {
            let mut c = sc.clone();
            c.net.jitter_ms = 0;
            out.push(c);
        }
        out.into_iter().map(|s| serde_json::to_value(s).unwrap()).collect()
    }
    fn watchdog_ms(&self) -> u64 {
        120_000
    }
}
