//! A rejected replier that does not take its refusal (C10 and C11): a raw peer registers as a
//! second replier on a bound topic through a stream whose receive window admits the `Ok` answer
//! but not the whole `REPLIER_ALREADY_BOUND` error frame, and then reads nothing. The refusal stays
//! half-written for as long as that peer likes. C10 quantifies over "all ready/pending outcomes of
//! the rejected replier's sink" and promises that the bound replier's traffic is unaffected; C11
//! that no authenticated peer can make a topic unusable for others with well-formed frames.
//! Judged: the bound replier keeps answering the requestor that was already there, and a fresh
//! requestor can still join and be answered.

use super::net::NetCfg;
use super::sim::*;
use crate::core::*;
use crate::rng::{Hasher64, Rng};
use anyhow::Result as AResult;
use quinn::{TransportConfig, VarInt};
use selium::keep_alive::BackoffStrategy;
use selium::prelude::*;
use selium::std::codecs::StringCodec;
use selium_protocol::{Frame, ReplierPayload, TopicName};
use serde::{Deserialize, Serialize};
use serde_json::Value;
use std::rc::Rc;
use std::time::Duration;

#[derive(Clone, Debug, Serialize, Deserialize)]
pub struct RejScript {
    pub net: NetCfg,
    pub rt_seed: u64,
    /// stream receive window of the peer that is going to be refused (the `Ok` answer is 9 bytes,
    /// the refusal about 60)
    pub window: u32,
    /// how many such peers register one after the other
    pub rejected_peers: usize,
}

pub fn gen_script(rng: &mut Rng) -> RejScript {
    RejScript { net: NetCfg::calm(rng.next()), rt_seed: rng.next(), window: *rng.pick(&[9u32, 12, 16, 16, 32, 48, 100_000]), rejected_peers: rng.usize(1, 3) }
}

#[derive(Debug, Default, Clone)]
pub struct RejReport {
    pub before_ok: bool,
    /// answers to the requests of the requestor that was there before the refused peer(s)
    pub after: Vec<Result<String, String>>,
    pub fresh: Option<Result<String, String>>,
}

async fn scenario(world: Rc<World>, sc: RejScript) -> AResult<RejReport> {
    world.start_server(ServerOpts::default())?;
    let no_retry = BackoffStrategy::constant().with_max_attempts(0);
    let topic = "/rej/rpc";
    let gr = world.new_group();
    let w = world.clone();
    let b = no_retry.clone();
    let rc = ACTOR.scope(gr, async move { w.client(b).await }).await?;
    let mut replier = ACTOR.scope(gr, rc.replier(topic).with_request_decoder(StringCodec).with_reply_encoder(StringCodec).with_handler(|q: String| async move { Ok::<_, anyhow::Error>(format!("bound:{q}")) }).open()).await?;
    tokio::task::spawn_local(ACTOR.scope(gr, async move {
        let _ = replier.listen().await;
    }));
    tokio::time::sleep(Duration::from_millis(300)).await;
    let gq = world.new_group();
    let w = world.clone();
    let b = no_retry.clone();
    let qc = ACTOR.scope(gq, async move { w.client(b).await }).await?;
    let mut q = ACTOR.scope(gq, qc.requestor(topic).with_request_encoder(StringCodec).with_reply_decoder(StringCodec).with_request_timeout(Duration::from_secs(3))?.open()).await?;
    let mut rep = RejReport::default();
    rep.before_ok = matches!(ACTOR.scope(gq, q.request("a".to_string())).await, Ok(ref s) if s == "bound:a");
    // the peers that will be refused: they register and then read nothing at all
    let mut keep = vec![];
    for _ in 0..sc.rejected_peers {
        let g = world.new_group();
        let mut t = TransportConfig::default();
        t.stream_receive_window(VarInt::from_u32(sc.window));
        let (ep, conn) = world.raw_trusted(g, Some(t)).await?;
        let tn = TopicName::try_from(topic).map_err(|e| anyhow::anyhow!("{e}"))?;
        let st = raw_open(&conn, Frame::RegisterReplier(ReplierPayload { topic: tn })).await?;
        keep.push((ep, conn, st));
        tokio::time::sleep(Duration::from_millis(200)).await;
    }
    tokio::time::sleep(Duration::from_millis(800)).await;
    for i in 0..3 {
        let r = tokio::time::timeout(Duration::from_secs(6), ACTOR.scope(gq, q.request(format!("b{i}")))).await;
        rep.after.push(match r {
            Ok(Ok(s)) => Ok(s),
            Ok(Err(e)) => Err(e.to_string()),
            Err(_) => Err("request() did not return within 6 virtual seconds".into()),
        });
    }
    let gf = world.new_group();
    let w = world.clone();
    let fc = ACTOR.scope(gf, async move { w.client(no_retry).await }).await?;
    let fresh = async {
        let mut f = ACTOR.scope(gf, fc.requestor(topic).with_request_encoder(StringCodec).with_reply_decoder(StringCodec).with_request_timeout(Duration::from_secs(3))?.open()).await?;
        Ok::<_, anyhow::Error>(ACTOR.scope(gf, f.request("c".to_string())).await)
    };
    rep.fresh = Some(match tokio::time::timeout(Duration::from_secs(8), fresh).await {
        Ok(Ok(Ok(s))) => Ok(s),
        Ok(Ok(Err(e))) => Err(e.to_string()),
        Ok(Err(e)) => Err(format!("could not open a requestor: {e:#}")),
        Err(_) => Err("neither open() nor request() returned within 8 virtual seconds".into()),
    });
    drop(keep);
    Ok(rep)
}

pub fn execute(prop: &str, sc: &RejScript, opts: &ExecOpts) -> Outcome {
    let mut out = Outcome::default();
    let sc2 = sc.clone();
    let res = run_world(sc.net, sc.rt_seed, Duration::from_secs(600), move |world| scenario(world, sc2));
    let mut th = Hasher64::default();
    match res {
        Err(e) => {
            out.inconclusive = true;
            out.log.push(format!("world failed: {e:#}"));
        }
        Ok(r) => {
            fold(&mut out, prop, &r);
            match &r.value {
                None => out.violate(prop, "scenario-timeout", "stalled-rejection", "the scenario did not finish within 600 virtual seconds".into()),
                Some(Err(e)) => setup_failed(&mut out, prop, "stalled-rejection", &sc.net, e),
                Some(Ok(rep)) => {
                    let sig = if sc.window < 64 { "refusal-does-not-fit-the-window" } else { "refusal-fits" };
                    if sc.window < 64 {
                        out.fault_n("rejected_replier_not_taking_its_refusal", sc.rejected_peers as u64);
                    }
                    if !rep.before_ok {
                        out.inconclusive = true;
                    } else {
                        for (i, a) in rep.after.iter().enumerate() {
                            th.word(a.is_ok() as u64);
                            if a.as_deref().ok() != Some(&format!("bound:b{i}")[..]) {
                                out.violate(prop, "bound-repliers-traffic-stalled-by-a-rejected-replier", sig, format!("{} peer(s) registered as a further replier behind a {}-byte stream window and read nothing; the requestor that was being served before got {a:?} for request b{i}", sc.rejected_peers, sc.window));
                                break;
                            }
                        }
                        if let Some(f) = &rep.fresh {
                            th.word(f.is_ok() as u64);
                            if f.as_deref().ok() != Some("bound:c") {
                                out.violate(prop, "topic-closed-to-newcomers-by-a-rejected-replier", sig, format!("{} peer(s) registered as a further replier behind a {}-byte stream window and read nothing; a fresh requestor on the topic got {f:?}", sc.rejected_peers, sc.window));
                            }
                        }
                    }
                    out.nontrivial = sc.window < 64;
                    out.steps = rep.after.len() as u64 + 2;
                    if opts.want_log {
                        out.log.push(format!("{rep:?}"));
                    }
                }
            }
            th.word(r.net_trace);
        }
    }
    out.trace_hash = th.finish();
    out.full_hash = th.finish();
    out
}

pub struct RejStall;
pub static REJ_STALL: RejStall = RejStall;

impl Family for RejStall {
    fn name(&self) -> &'static str {
        "stalled-rejection"
    }
    fn engine(&self) -> &'static str {
        "N"
    }
    fn generate(&self, _p: &str, _t: Tier, _i: u64, _n: u64, rng: &mut Rng) -> Value {
        serde_json::to_value(gen_script(rng)).unwrap()
    }
    fn execute(&self, property: &str, body: &Value, opts: &ExecOpts) -> Outcome {
        match serde_json::from_value::<RejScript>(body.clone()) {
            Ok(sc) => execute(property, &sc, opts),
            Err(e) => {
                let mut o = Outcome::default();
                o.inconclusive = true;
                o.log.push(format!("bad script: {e}"));
                o
            }
        }
    }
    fn shrink(&self, body: &Value) -> Vec<Value> {
        let Ok(sc) = serde_json::from_value::<RejScript>(body.clone()) else { return vec![] };
        let mut out = vec![];
        if sc.rejected_peers > 1 {
            let mut c = sc.clone();
            c.rejected_peers = 1;
            out.push(c);
        }
        out.into_iter().map(|s| serde_json::to_value(s).unwrap()).collect()
    }
    fn watchdog_ms(&self) -> u64 {
        60_000
    }
}
