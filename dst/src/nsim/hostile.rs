//! Hostile peers over the simulated network (C06 N-part, C14 invalid-payload clause): raw peers that
//! speak quinn + MessageCodec directly send crafted payloads to real library subscribers,
//! requestors and repliers, and raw garbage to the real server.

use super::e2e::{bytes_of, make_comp, make_decomp, rec_of, text_of, CodecKind, CompKind, Level};
use super::net::NetCfg;
use super::sim::*;
use crate::core::*;
use crate::rng::{Hasher64, Rng};
use crate::wsim::hostile::{apply, Mutation, Rec};
use anyhow::{anyhow, Result as AResult};
use bytes::Bytes;
use futures::{SinkExt, StreamExt};
use selium::keep_alive::BackoffStrategy;
use selium::prelude::*;
use selium::std::codecs::{BincodeCodec, BytesCodec, StringCodec};
use selium::std::traits::codec::MessageEncoder;
use selium::std::traits::compression::Compress;
use selium_protocol::utils::encode_message_batch;
use selium_protocol::{Frame, MessagePayload, PublisherPayload, ReplierPayload, RequestorPayload, TopicName};
use serde::{Deserialize, Serialize};
use serde_json::Value;
use std::collections::HashMap;
use std::rc::Rc;
use std::time::Duration;

#[derive(Clone, Debug, Serialize, Deserialize)]
pub struct Crafted {
    /// how many messages the valid base holds (1 = plain Message frame unless `batched`)
    pub msgs: Vec<(usize, u64)>,
    pub batched: bool,
    /// encode with the subscriber's own codec/compression, then corrupt
    pub mutations: Vec<Mutation>,
    /// explicit invalid payloads for the codec clause of C14
    pub invalid: Option<Invalid>,
    /// the frame is sent this many times back to back (0 and 1 both mean once)
    #[serde(default)]
    pub repeat: usize,
}

#[derive(Clone, Copy, Debug, Serialize, Deserialize, PartialEq)]
#[serde(rename_all = "snake_case")]
pub enum Invalid {
    /// bytes that are not UTF-8 (string codec) / a truncated record (bincode)
    ForCodec,
    /// a valid message, compressed, with the last `cut` bytes of the compressed stream (its
    /// trailer / checksum / end mark) missing: the decompressor has produced output by the time it
    /// notices. Without compression configured this is the valid message itself.
    CutCompressed { cut: usize },
}

#[derive(Clone, Copy, Debug, Serialize, Deserialize, PartialEq)]
#[serde(rename_all = "snake_case")]
pub enum TargetRole {
    Subscriber,
    Requestor,
    Replier,
    ServerRawBytes,
}

#[derive(Clone, Debug, Serialize, Deserialize)]
pub struct HostileScript {
    pub net: NetCfg,
    pub rt_seed: u64,
    pub role: TargetRole,
    pub codec: CodecKind,
    pub comp: Option<CompKind>,
    pub frames: Vec<Crafted>,
    /// ServerRawBytes: bytes written on a fresh stream
    pub raw: Vec<(usize, u64)>,
}

fn encode_items(codec: CodecKind, msgs: &[(usize, u64)]) -> Vec<Bytes> {
    msgs.iter()
        .enumerate()
        .map(|(i, (s, f))| match codec {
            CodecKind::String => StringCodec.encode(text_of(i, *s, *f)).unwrap(),
            CodecKind::Bytes => BytesCodec.encode(bytes_of(i, *s, *f)).unwrap(),
            CodecKind::Bincode => BincodeCodec::<Rec>::default().encode(rec_of(i, *s, *f)).unwrap(),
        })
        .collect()
}

fn fp_of<T: std::fmt::Debug>(x: &T) -> u64 {
    let mut h = Hasher64::default();
    h.bytes(format!("{x:?}").as_bytes());
    h.finish()
}

/// Fingerprint of the value a subscriber must yield for an unbatched, uncorrupted single-message
/// frame (also for one whose compressed form was cut short: if the subscriber yields a value for
/// it at all, it is this one).
fn expected_value(codec: CodecKind, c: &Crafted) -> Option<u64> {
    if c.batched || !c.mutations.is_empty() || c.msgs.len() != 1 || matches!(c.invalid, Some(Invalid::ForCodec)) {
        return None;
    }
    let (s, f) = c.msgs[0];
    Some(match codec {
        CodecKind::String => fp_of(&text_of(0, s, f)),
        CodecKind::Bytes => fp_of(&bytes_of(0, s, f)),
        CodecKind::Bincode => fp_of(&rec_of(0, s, f)),
    })
}

/// The frame a well-behaved publisher would send for these messages, corrupted per the script.
/// Returns (frame, known_invalid, all_valid) where known_invalid means the payload is certainly
/// not decodable by the codec, all_valid that nothing was corrupted.
fn craft(codec: CodecKind, comp: Option<CompKind>, c: &Crafted) -> (Frame, bool, bool) {
    if let Some(Invalid::CutCompressed { cut }) = c.invalid {
        let items = encode_items(codec, &c.msgs);
        let mut body = items.first().cloned().unwrap_or_default();
        let mut valid = true;
        if let Some(k) = comp {
            let full = make_comp(k, Level::Default).compress(body).unwrap();
            let keep = full.len().saturating_sub(cut);
            valid = keep == full.len();
            body = full.slice(..keep);
        }
        return (Frame::Message(MessagePayload { headers: None, message: body }), false, valid);
    }
    if let Some(Invalid::ForCodec) = c.invalid {
        let raw: Vec<u8> = match codec {
            // not UTF-8 in the middle, or a text cut inside its last character
            CodecKind::String if c.repeat % 2 == 0 => vec![b'o', b'k', 0xff, 0xfe, 0xc0],
            CodecKind::String => vec![b'p', b'r', b'i', b'c', b'e', b':', b' ', b'5', 0xe2, 0x82],
            CodecKind::Bincode => {
                let full = BincodeCodec::<Rec>::default().encode(rec_of(0, 40, 7)).unwrap();
                full[..full.len() / 2].to_vec()
            }
            CodecKind::Bytes => vec![1, 2, 3],
        };
        let mut body = Bytes::from(raw);
        if let Some(k) = comp {
            body = make_comp(k, Level::Default).compress(body).unwrap();
        }
        let invalid = codec != CodecKind::Bytes;
        return (Frame::Message(MessagePayload { headers: None, message: body }), invalid, !invalid);
    }
    let items = encode_items(codec, &c.msgs);
    let mut body = if c.batched { encode_message_batch(items) } else { items.first().cloned().unwrap_or_default() };
    if let Some(k) = comp {
        body = make_comp(k, Level::Default).compress(body).unwrap();
    }
    let data = apply(body.to_vec(), &c.mutations);
    let frame = if c.batched { Frame::BatchMessage(Bytes::from(data)) } else { Frame::Message(MessagePayload { headers: None, message: Bytes::from(data) }) };
    (frame, false, c.mutations.is_empty())
}

fn gen_mutations(rng: &mut Rng) -> Vec<Mutation> {
    let n = *rng.pick(&[0usize, 1, 1, 2, 3]);
    (0..n)
        .map(|_| match rng.below(9) {
            8 => Mutation::SetHead { bytes: crate::wsim::hostile::gen_head(rng) },
            0 | 1 => Mutation::BitFlip { at: rng.next(), bit: rng.below(8) as u8 },
            2 => Mutation::Truncate { at: rng.next() },
            3 => Mutation::Insert { at: rng.next(), n: rng.usize(1, 8), fill: rng.next() },
            4 => Mutation::Delete { at: rng.next(), n: rng.usize(1, 8) },
            5 => Mutation::Random { n: *rng.pick(&[0usize, 1, 8, 9, 17, 100]), fill: rng.next() },
            6 => Mutation::SetU64Be { at: *rng.pick(&[0u64, 8, 16]), value: *rng.pick(&[0u64, 1 << 20, 1 << 32, 1 << 40, 1 << 62, u64::MAX]) },
            _ => Mutation::SetU64Le { at: *rng.pick(&[0u64, 8, 16, 24]), value: *rng.pick(&[0u64, 1 << 20, 1 << 32, 1 << 40, 1 << 62, u64::MAX]) },
        })
        .collect()
}

pub fn gen_script(rng: &mut Rng, c14_only: bool) -> HostileScript {
    let codec = *rng.pick(&[CodecKind::String, CodecKind::Bytes, CodecKind::Bincode]);
    let comp = if rng.chance(1, 2) { None } else { Some(*rng.pick(&[CompKind::Gzip, CompKind::Zlib, CompKind::Zstd, CompKind::Lz4, CompKind::BrotliGeneric])) };
    let role = if c14_only { TargetRole::Subscriber } else { *rng.pick(&[TargetRole::Subscriber, TargetRole::Subscriber, TargetRole::Requestor, TargetRole::Replier, TargetRole::ServerRawBytes]) };
    let n = rng.usize(1, 6);
    let long_run_used = std::cell::Cell::new(false);
    let frames = (0..n)
        .map(|_| {
            if c14_only || rng.chance(1, 5) {
                if rng.chance(1, 3) {
                    Crafted { msgs: vec![], batched: false, mutations: vec![], invalid: Some(Invalid::ForCodec), repeat: rng.usize(0, 1) }
                } else if rng.chance(1, 2) {
                    Crafted { msgs: vec![(rng.usize(0, 60), rng.next())], batched: false, mutations: vec![], invalid: Some(Invalid::CutCompressed { cut: rng.usize(1, 4) }), repeat: 1 }
                } else {
                    Crafted { msgs: vec![(rng.usize(0, 60), rng.next())], batched: false, mutations: vec![], invalid: None , repeat: 1 }
                }
            } else {
                let batched = role == TargetRole::Subscriber && rng.chance(1, 2);
                let k = if batched { rng.usize(0, 4) } else { 1 };
                // long runs of well-formed frames that carry nothing (empty batches), ready all at once
                // (at most one long run per script: the consumer only starts reading once everything
                // has been written, so that it finds the frames ready all at once, and what is
                // written before that has to fit into the flow-control windows on the way — two
                // runs of 40000 compressed frames do not, and the writer then waits for a reader
                // that waits for the writer)
                if batched && k == 0 && rng.chance(1, 2) {
                    let repeat = if long_run_used.get() { 100 } else { *rng.pick(&[100usize, 5_000, 40_000]) };
                    if repeat > 100 {
                        long_run_used.set(true);
                    }
                    return Crafted { msgs: vec![], batched: true, mutations: vec![], invalid: None, repeat };
                }
                Crafted { msgs: (0..k).map(|_| (rng.usize(0, 200), rng.next())).collect(), batched, mutations: gen_mutations(rng), invalid: None , repeat: 1 }
            }
        })
        .collect();
    let raw = if role == TargetRole::ServerRawBytes { (0..rng.usize(1, 3)).map(|_| (*rng.pick(&[0usize, 1, 8, 9, 10, 40, 500]), rng.next())).collect() } else { vec![] };
    HostileScript { net: NetCfg::calm(rng.next()), rt_seed: rng.next(), role, codec, comp, frames, raw }
}

#[derive(Debug, Default)]
pub struct HostileReport {
    /// one entry per yield of the consumer: "ok" / "err"
    pub yields: Vec<String>,
    pub sentinel_seen: bool,
    pub probe_ok: bool,
    pub notes: Vec<String>,
    /// per unbatched frame: (expected_invalid, expected_valid)
    pub expectations: Vec<(bool, bool)>,
    /// per yield: fingerprint of the yielded value (None for errors)
    pub values: Vec<Option<u64>>,
    /// per unbatched frame: fingerprint of the only value the subscriber may yield for it
    pub expected_values: Vec<Option<u64>>,
}

/// A clean pub/sub round trip on a fresh topic: is the server still serving?
pub async fn probe_roundtrip(a: &selium::Client, ga: u32, b: &selium::Client, gb: u32, topic: &str) -> bool {
    let r: AResult<bool> = async {
        let mut sub = ACTOR.scope(ga, a.subscriber(topic).with_decoder(StringCodec).open()).await?;
        tokio::time::sleep(Duration::from_millis(500)).await;
        let mut p = ACTOR.scope(gb, b.publisher(topic).with_encoder(StringCodec).open()).await?;
        ACTOR.scope(gb, p.send("probe".to_string())).await?;
        let got = tokio::time::timeout(Duration::from_secs(10), ACTOR.scope(ga, sub.next())).await;
        let _ = p.finish().await;
        Ok(matches!(got, Ok(Some(Ok(ref s))) if s == "probe"))
    }
    .await;
    r.unwrap_or(false)
}

async fn consume<D, Item>(mut sub: selium::keep_alive::pubsub::KeepAlive<selium::pubsub::Subscriber<D, Item>>, group: u32, sentinel: impl Fn(&Item) -> bool) -> (Vec<String>, bool, Vec<Option<u64>>)
where
    D: selium::std::traits::codec::MessageDecoder<Item> + Send + Unpin,
    Item: Send + Unpin + std::fmt::Debug,
{
    let mut yields = vec![];
    let mut values = vec![];
    let mut seen = false;
    loop {
        match tokio::time::timeout(Duration::from_secs(30), ACTOR.scope(group, sub.next())).await {
            Ok(Some(Ok(x))) => {
                if sentinel(&x) {
                    seen = true;
                    break;
                }
                yields.push("ok".to_string());
                values.push(Some(fp_of(&x)));
            }
            Ok(Some(Err(_))) => {
                yields.push("err".to_string());
                values.push(None);
            }
            Ok(None) => {
                yields.push("end".into());
                break;
            }
            Err(_) => {
                yields.push("timeout".into());
                break;
            }
        }
        if yields.len() > 200 {
            break;
        }
    }
    (yields, seen, values)
}

const SENTINEL: &str = "__sentinel__";

async fn scenario(world: Rc<World>, sc: HostileScript) -> AResult<HostileReport> {
    let mut rep = HostileReport::default();
    world.start_server(ServerOpts::default())?;
    let backoff = BackoffStrategy::constant().with_max_attempts(0);
    let g1 = world.new_group();
    let g2 = world.new_group();
    let g3 = world.new_group();
    let w = world.clone();
    let b = backoff.clone();
    let victim = ACTOR.scope(g1, async move { w.client(b).await }).await?;
    let w = world.clone();
    let helper = ACTOR.scope(g2, async move { w.client(backoff).await }).await?;
    let (_raw_ep, raw_conn) = world.raw_trusted(g3, None).await?;
    let topic_s = "/hostile/topic";
    let topic = TopicName::try_from(topic_s).map_err(|e| anyhow!("{e}"))?;
    let sentinel_frame = |codec: CodecKind, comp: Option<CompKind>| -> Frame {
        let body = match codec {
            CodecKind::String => Bytes::from(SENTINEL),
            CodecKind::Bytes => Bytes::from(SENTINEL),
            CodecKind::Bincode => BincodeCodec::<Rec>::default().encode(Rec { name: SENTINEL.into(), id: 0, tags: vec![], blob: vec![], opt: None }).unwrap(),
        };
        let body = match comp {
            Some(k) => make_comp(k, Level::Default).compress(body).unwrap(),
            None => body,
        };
        Frame::Message(MessagePayload { headers: None, message: body })
    };
    match sc.role {
        TargetRole::Subscriber => {
            macro_rules! run_sub {
                ($dec:expr, $is_sentinel:expr) => {{
                    let mut b = victim.subscriber(topic_s).with_decoder($dec);
                    if let Some(k) = sc.comp {
                        b = b.with_decompression(make_decomp(k));
                    }
                    let sub = ACTOR.scope(g1, b.open()).await?;
                    tokio::time::sleep(Duration::from_millis(500)).await;
                    let mut stream = raw_open(&raw_conn, Frame::RegisterPublisher(PublisherPayload { topic: topic.clone(), retention_policy: 0, operations: vec![] })).await?;
                    let first = stream.next().await;
                    if !matches!(first, Some(Ok(Frame::Ok))) {
                        rep.notes.push(format!("raw publisher registration answered {:?}", first.map(|r| r.map_err(|e| e.to_string()))));
                    }
                    for c in &sc.frames {
                        let (frame, invalid, valid) = craft(sc.codec, sc.comp, c);
                        if !c.batched {
                            rep.expectations.push((invalid, valid));
                            rep.expected_values.push(expected_value(sc.codec, c));
                        }
                        // repeated frames are fed without flushing in between, so that the consumer
                        // finds them all ready at once
                        for _ in 1..c.repeat.max(1) {
                            stream.feed(frame.clone()).await.map_err(|e| anyhow!("raw feed: {e}"))?;
                        }
                        stream.send(frame).await.map_err(|e| anyhow!("raw send: {e}"))?;
                    }
                    stream.send(sentinel_frame(sc.codec, sc.comp)).await.map_err(|e| anyhow!("raw send: {e}"))?;
                    let (y, seen, vals) = consume(sub, g1, $is_sentinel).await;
                    rep.yields = y;
                    rep.values = vals;
                    rep.sentinel_seen = seen;
                }};
            }
            match sc.codec {
                CodecKind::String => run_sub!(StringCodec, |s: &String| s == SENTINEL),
                CodecKind::Bytes => run_sub!(BytesCodec, |s: &Vec<u8>| s == SENTINEL.as_bytes()),
                CodecKind::Bincode => run_sub!(BincodeCodec::<Rec>::default(), |r: &Rec| r.name == SENTINEL),
            }
        }
        TargetRole::Requestor => {
            // a raw replier answers a real requestor with crafted replies
            let topic_rr = "/hostile/echo";
            let t = TopicName::try_from(topic_rr).map_err(|e| anyhow!("{e}"))?;
            let mut stream = raw_open(&raw_conn, Frame::RegisterReplier(ReplierPayload { topic: t })).await?;
            let _ = stream.next().await;
            let frames: Vec<(Frame, bool, bool)> = sc.frames.iter().map(|c| craft(sc.codec, sc.comp, c)).collect();
            let n = frames.len();
            tokio::task::spawn_local(async move {
                let mut i = 0;
                while let Some(Ok(Frame::Message(req))) = stream.next().await {
                    let body = match frames.get(i).map(|f| &f.0) {
                        Some(Frame::Message(m)) => m.message.clone(),
                        Some(Frame::BatchMessage(b)) => b.clone(),
                        _ => Bytes::from("x"),
                    };
                    i += 1;
                    let _ = stream.send(Frame::Message(MessagePayload { headers: req.headers, message: body })).await;
                }
            });
            tokio::time::sleep(Duration::from_millis(500)).await;
            let mut b = victim.requestor(topic_rr).with_request_encoder(StringCodec).with_reply_decoder(StringCodec);
            if let Some(k) = sc.comp {
                b = b.with_reply_decompression(make_decomp(k));
            }
            let mut requestor = ACTOR.scope(g1, b.with_request_timeout(Duration::from_secs(3))?.open()).await?;
            for i in 0..n {
                match tokio::time::timeout(Duration::from_secs(20), ACTOR.scope(g1, requestor.request(format!("q{i}")))).await {
                    Ok(Ok(_)) => rep.yields.push("ok".into()),
                    Ok(Err(_)) => rep.yields.push("err".into()),
                    Err(_) => rep.yields.push("timeout".into()),
                }
            }
            rep.sentinel_seen = !rep.yields.iter().any(|y| y == "timeout");
        }
        TargetRole::Replier => {
            // a raw requestor sends crafted requests to a real replier
            let topic_rr = "/hostile/serve";
            let mut b = victim.replier(topic_rr).with_request_decoder(StringCodec);
            if let Some(k) = sc.comp {
                b = b.with_request_decompression(make_decomp(k));
            }
            let mut replier = ACTOR.scope(g1, b.with_reply_encoder(StringCodec).with_handler(|req: String| async move { Ok::<_, anyhow::Error>(format!("re:{}", req.len())) }).open()).await?;
            let listen = tokio::task::spawn_local(ACTOR.scope(g1, async move { replier.listen().await.map_err(|e| e.to_string()) }));
            tokio::time::sleep(Duration::from_millis(500)).await;
            let t = TopicName::try_from(topic_rr).map_err(|e| anyhow!("{e}"))?;
            let mut stream = raw_open(&raw_conn, Frame::RegisterRequestor(RequestorPayload { topic: t })).await?;
            let _ = stream.next().await;
            for (i, c) in sc.frames.iter().enumerate() {
                let (frame, _, _) = craft(sc.codec, sc.comp, c);
                let body = match frame {
                    Frame::Message(m) => m.message,
                    Frame::BatchMessage(b) => b,
                    _ => Bytes::new(),
                };
                let mut h = HashMap::new();
                h.insert("req_id".to_string(), format!("{i}"));
                let _ = stream.send(Frame::Message(MessagePayload { headers: Some(h), message: body })).await;
                match tokio::time::timeout(Duration::from_secs(3), stream.next()).await {
                    Ok(Some(Ok(_))) => rep.yields.push("ok".into()),
                    Ok(Some(Err(_))) => rep.yields.push("err".into()),
                    Ok(None) => rep.yields.push("end".into()),
                    Err(_) => rep.yields.push("none".into()),
                }
            }
            // the replier task either still listens or has returned an error; it must not have panicked
            tokio::time::sleep(Duration::from_millis(200)).await;
            if listen.is_finished() {
                match listen.await {
                    Ok(r) => rep.notes.push(format!("replier listen() returned {r:?}")),
                    Err(e) => rep.notes.push(format!("replier task join error: {e}")),
                }
            }
            rep.sentinel_seen = true;
        }
        TargetRole::ServerRawBytes => {
            for (n, fill) in &sc.raw {
                if let Ok((mut send, _recv)) = raw_conn.open_bi().await {
                    let bytes = Rng::new(*fill).bytes(*n);
                    let _ = send.write_all(&bytes).await;
                    let _ = send.finish().await;
                }
            }
            // a corrupted registration frame too
            for c in &sc.frames {
                if let Ok((mut send, _recv)) = raw_conn.open_bi().await {
                    use tokio_util::codec::Encoder;
                    let mut buf = bytes::BytesMut::new();
                    let _ = selium_protocol::MessageCodec.encode(Frame::RegisterPublisher(PublisherPayload { topic: topic.clone(), retention_policy: 1, operations: vec![] }), &mut buf);
                    let data = apply(buf.to_vec(), &c.mutations);
                    let _ = send.write_all(&data).await;
                    let _ = send.finish().await;
                }
            }
            tokio::time::sleep(Duration::from_millis(500)).await;
            rep.sentinel_seen = true;
        }
    }
    rep.probe_ok = probe_roundtrip(&victim, g1, &helper, g2, "/hostile/probe").await;
    Ok(rep)
}

pub fn execute(prop: &str, sc: &HostileScript, opts: &ExecOpts) -> Outcome {
    let mut out = Outcome::default();
    let sc2 = sc.clone();
    // whole-world allocation guard: no frame is larger than 1 MiB, so nothing in the server, the
    // transport or the victim client has a reason to ask for hundreds of megabytes at once
    crate::alloc_guard::arm(256 << 20);
    let res = run_world(sc.net, sc.rt_seed, Duration::from_secs(600), move |world| scenario(world, sc2));
    let biggest = crate::alloc_guard::disarm();
    if biggest > 0 {
        out.violate(prop, "oversized-allocation", &format!("hostile-peer:{:?}", sc.role).to_lowercase(), format!("a single allocation of {biggest} bytes was requested while the victim handled crafted frames of at most 1 MiB"));
    }
    let mut th = Hasher64::default();
    match res {
        Err(e) => {
            out.inconclusive = true;
            out.log.push(format!("world failed: {e:#}"));
        }
        Ok(r) => {
            fold(&mut out, prop, &r);
            match &r.value {
                None => out.violate(prop, "scenario-timeout", &format!("hostile-peer:{:?}", sc.role).to_lowercase(), "the hostile exchange did not finish within 600 virtual seconds".into()),
                Some(Err(e)) => setup_failed(&mut out, prop, "hostile-peer", &sc.net, e),
                Some(Ok(rep)) => {
                    for y in &rep.yields {
                        th.bytes(y.as_bytes());
                    }
                    out.probe(&format!("target_{:?}", sc.role).to_lowercase());
                    out.fault_n("crafted_frames_sent", sc.frames.len() as u64);
                    out.fault_n("raw_garbage_streams", sc.raw.len() as u64);
                    if !rep.sentinel_seen {
                        out.violate(prop, "consumer-wedged", &format!("{:?}", sc.role).to_lowercase(), format!("after the crafted payloads the consumer never produced the sentinel / an answer: yields {:?} notes {:?}", rep.yields, rep.notes));
                    }
                    if !rep.probe_ok {
                        out.violate(prop, "server-unusable-after-hostile-input", &format!("{:?}", sc.role).to_lowercase(), format!("a clean pub/sub round trip failed after the hostile exchange (notes {:?})", rep.notes));
                    }
                    // codec clause: with only unbatched frames, yields align with frames
                    if sc.role == TargetRole::Subscriber && sc.frames.iter().all(|c| !c.batched) && rep.sentinel_seen && rep.yields.len() == rep.expectations.len() {
                        for (i, ((invalid, valid), y)) in rep.expectations.iter().zip(rep.yields.iter()).enumerate() {
                            if *invalid && y == "ok" {
                                out.violate(prop, "invalid-payload-yielded-as-value", &format!("{:?}", sc.codec).to_lowercase(), format!("frame {i} carried bytes that are not valid for the {:?} codec, the subscriber yielded a value", sc.codec));
                            }
                            if *valid && y == "err" {
                                out.violate(prop, "valid-payload-rejected", &format!("{:?}", sc.codec).to_lowercase(), format!("frame {i} carried a valid {:?} payload, the subscriber yielded an error", sc.codec));
                            }
                        }
                        for (i, (want, y)) in rep.expected_values.iter().zip(rep.yields.iter()).enumerate() {
                            if let (Some(w), "ok", Some(Some(got))) = (want, y.as_str(), rep.values.get(i)) {
                                if got != w {
                                    let what = if matches!(sc.frames[i].invalid, Some(Invalid::CutCompressed { .. })) && sc.comp.is_some() { "a valid message whose compressed form was cut short" } else { "a valid message" };
                                    out.violate(prop, "wrong-value-yielded", &format!("{:?}-{:?}", sc.codec, sc.comp).to_lowercase(), format!("frame {i} carried {what} ({:?} codec, {:?}); the subscriber yielded a value that is not the message that was sent (frames before it: {:?})", sc.codec, sc.comp, sc.frames[..i].iter().map(|c| c.invalid).collect::<Vec<_>>()));
                                }
                            }
                        }
                        if sc.frames.iter().any(|c| matches!(c.invalid, Some(Invalid::CutCompressed { .. }))) && sc.comp.is_some() {
                            out.fault("compressed_payload_cut_short");
                        }
                        out.probe("codec_clause_aligned_runs");
                    }
                    out.nontrivial = !sc.frames.is_empty() || !sc.raw.is_empty();
                    out.steps = sc.frames.len() as u64;
                    if opts.want_log {
                        out.log.push(format!("yields {:?} sentinel {} probe {} notes {:?}", rep.yields, rep.sentinel_seen, rep.probe_ok, rep.notes));
                    }
                }
            }
            th.word(r.net_trace);
        }
    }
    out.trace_hash = th.finish();
    out.full_hash = th.finish();
    out
}

pub struct HostileFamily {
    pub name: &'static str,
    pub c14_only: bool,
}
pub static HOSTILE_PEER: HostileFamily = HostileFamily { name: "hostile-peer", c14_only: false };
pub static INVALID_PAYLOADS: HostileFamily = HostileFamily { name: "invalid-payloads", c14_only: true };

impl Family for HostileFamily {
    fn name(&self) -> &'static str {
        self.name
    }
    fn engine(&self) -> &'static str {
        "N"
    }
    fn generate(&self, _p: &str, _t: Tier, _i: u64, _n: u64, rng: &mut Rng) -> Value {
        serde_json::to_value(gen_script(rng, self.c14_only)).unwrap()
    }
    fn execute(&self, property: &str, body: &Value, opts: &ExecOpts) -> Outcome {
        match serde_json::from_value::<HostileScript>(body.clone()) {
            Ok(sc) => execute(property, &sc, opts),
            Err(e) => {
                let mut o = Outcome::default();
                o.inconclusive = true;
                o.log.push(format!("bad script: {e}"));
                o
            }
        }
    }
    fn shrink(&self, body: &Value) -> Vec<Value> {
        let Ok(sc) = serde_json::from_value::<HostileScript>(body.clone()) else { return vec![] };
        let mut out = vec![];
        for i in 0..sc.frames.len() {
            let mut c = sc.clone();
            c.frames.remove(i);
            out.push(c);
        }
        for i in 0..sc.raw.len() {
            let mut c = sc.clone();
            c.raw.remove(i);
            out.push(c);
        }
        if sc.comp.is_some() {
            let mut c = sc.clone();
            c.comp = None;
            out.push(c);
        }
        for (fi, f) in sc.frames.iter().enumerate() {
            for mi in 0..f.mutations.len() {
                let mut c = sc.clone();
                c.frames[fi].mutations.remove(mi);
                out.push(c);
            }
            if f.msgs.len() > 1 {
                let mut c = sc.clone();
                c.frames[fi].msgs.truncate(1);
                out.push(c);
            }
            if f.repeat > 1 {
                for r in [1, f.repeat / 2, f.repeat * 3 / 4] {
                    if r < f.repeat {
                        let mut c = sc.clone();
                        c.frames[fi].repeat = r;
                        out.push(c);
                    }
                }
            }
        }
        out.into_iter().map(|s| serde_json::to_value(s).unwrap()).collect()
    }
    fn stack_bytes(&self) -> usize {
        // the victim is a consuming client: what a tokio worker thread gets
        2 << 20
    }
    fn watchdog_ms(&self) -> u64 {
        60_000
    }
}
