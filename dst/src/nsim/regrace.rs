//! Registration race — several peers make the *first* registrations on a brand-new topic at the same
//! instant (C01 / C10 / C11). With the seeded yield seam in tokio's locks the server's per-stream
//! tasks interleave between their lock scopes as they would on a multi-threaded runtime.
//!
//! * all repliers (C10): exactly one is bound and gets the requests; every other one is told
//!   REPLIER_ALREADY_BOUND and closed; none is accepted and silently dropped;
//! * publishers and subscribers (C01): every subscriber, once all registrations are answered, gets
//!   every message every publisher sends afterwards;
//! * mixed kinds (C11): the topic takes the kind of one of them; every peer of the other kind is
//!   refused with TOPIC_KIND_MISMATCH; every accepted peer is really served.

use super::net::NetCfg;
use super::sim::*;
use crate::core::*;
use crate::rng::{Hasher64, Rng};
use anyhow::Result as AResult;
use bytes::Bytes;
use futures::{SinkExt, StreamExt};
use selium_protocol::error_codes::{REPLIER_ALREADY_BOUND, TOPIC_KIND_MISMATCH};
use selium_protocol::{BiStream, Frame, MessagePayload, PublisherPayload, ReplierPayload, RequestorPayload, SubscriberPayload, TopicName};
use serde::{Deserialize, Serialize};
use serde_json::Value;
use std::collections::HashMap;
use std::rc::Rc;
use std::time::Duration;

#[derive(Clone, Copy, Debug, Serialize, Deserialize, PartialEq, Eq)]
#[serde(rename_all = "snake_case")]
pub enum Role {
    Pub,
    Sub,
    Rep,
    Req,
}

#[derive(Clone, Debug, Serialize, Deserialize)]
pub struct RaceScript {
    pub net: NetCfg,
    pub rt_seed: u64,
    pub roles: Vec<Role>,
    /// peers share connections (true: one connection for all; false: one each)
    pub one_connection: bool,
    pub n_topics: usize,
    /// probability (ppm) that an uncontended lock acquisition yields first
    #[serde(default)]
    pub yield_ppm: u32,
}

pub fn gen_script(rng: &mut Rng) -> RaceScript {
    let n = rng.usize(2, 8);
    let roles: Vec<Role> = match rng.below(4) {
        0 => vec![Role::Rep; n],
        1 => (0..n).map(|_| *rng.pick(&[Role::Pub, Role::Sub])).collect(),
        2 => (0..n).map(|_| *rng.pick(&[Role::Rep, Role::Req, Role::Rep])).collect(),
        _ => (0..n).map(|_| *rng.pick(&[Role::Pub, Role::Sub, Role::Rep, Role::Req])).collect(),
    };
    // no delay differences: the registrations arrive together
    RaceScript { net: NetCfg { seed: rng.next(), loss_ppm: 0, dup_ppm: 0, min_delay_ms: rng.range(1, 5) as u32, jitter_ms: 0 }, rt_seed: rng.next(), roles, one_connection: rng.chance(1, 2), n_topics: rng.usize(1, 4), yield_ppm: *rng.pick(&[0u32, 100_000, 300_000, 500_000, 700_000]) }
}

#[derive(Debug, Clone, PartialEq)]
pub enum Answer {
    Ok,
    Error(u32),
    Closed,
    Timeout,
    Other,
}

#[derive(Debug, Default, Clone)]
pub struct TopicReport {
    pub answers: Vec<Answer>,
    /// per peer: frames received after the registration answer, as text
    pub later: Vec<Vec<String>>,
    /// per peer: the stream ended (or errored) after an Ok
    pub ended: Vec<bool>,
}

async fn scenario(world: Rc<World>, sc: RaceScript) -> AResult<Vec<TopicReport>> {
    world.start_server(ServerOpts::default())?;
    let n = sc.roles.len();
    let mut conns = vec![];
    if sc.one_connection {
        let g = world.new_group();
        conns.push(world.raw_trusted(g, None).await?);
    } else {
        for _ in 0..n {
            let g = world.new_group();
            conns.push(world.raw_trusted(g, None).await?);
        }
    }
    let mut reports = vec![];
    for t in 0..sc.n_topics {
        let topic = TopicName::try_from(format!("/race/topic{t}").as_str()).map_err(|e| anyhow::anyhow!("{e}"))?;
        // open all streams first (no frame yet), then send all first frames back to back
        let mut streams: Vec<BiStream> = vec![];
        for i in 0..n {
            let conn = &conns[if sc.one_connection { 0 } else { i }].1;
            streams.push(BiStream::try_from_connection(conn).await.map_err(|e| anyhow::anyhow!("open_bi: {e}"))?);
        }
        for (i, s) in streams.iter_mut().enumerate() {
            let f = match sc.roles[i] {
                Role::Pub => Frame::RegisterPublisher(PublisherPayload { topic: topic.clone(), retention_policy: 0, operations: vec![] }),
                Role::Sub => Frame::RegisterSubscriber(SubscriberPayload { topic: topic.clone(), retention_policy: 0, operations: vec![] }),
                Role::Rep => Frame::RegisterReplier(ReplierPayload { topic: topic.clone() }),
                Role::Req => Frame::RegisterRequestor(RequestorPayload { topic: topic.clone() }),
            };
            // feed without awaiting a round trip: the frames leave together
            s.feed(f).await.map_err(|e| anyhow::anyhow!("feed: {e}"))?;
        }
        for s in streams.iter_mut() {
            let _ = s.flush().await;
        }
        let mut rep = TopicReport { answers: vec![], later: vec![vec![]; n], ended: vec![false; n] };
        for s in streams.iter_mut() {
            rep.answers.push(match tokio::time::timeout(Duration::from_secs(10), s.next()).await {
                Ok(Some(Ok(Frame::Ok))) => Answer::Ok,
                Ok(Some(Ok(Frame::Error(e)))) => Answer::Error(e.code),
                Ok(Some(Ok(_))) => Answer::Other,
                Ok(Some(Err(_))) | Ok(None) => Answer::Closed,
                Err(_) => Answer::Timeout,
            });
        }
        tokio::time::sleep(Duration::from_millis(500)).await;
        // traffic from every accepted sender
        for (i, s) in streams.iter_mut().enumerate() {
            if rep.answers[i] != Answer::Ok {
                continue;
            }
            match sc.roles[i] {
                Role::Pub => {
                    let _ = s.send(Frame::Message(MessagePayload { headers: None, message: Bytes::from(format!("P{i}")) })).await;
                }
                Role::Req => {
                    let mut h = HashMap::new();
                    h.insert("req_id".to_string(), "0".to_string());
                    let _ = s.send(Frame::Message(MessagePayload { headers: Some(h), message: Bytes::from(format!("Q{i}")) })).await;
                }
                _ => {}
            }
        }
        // collect: subscribers read messages, repliers read requests (and answer), requestors read replies;
        // rejected repliers may get their error frame late (after an Ok)
        let deadline = tokio::time::Instant::now() + Duration::from_secs(6);
        loop {
            let mut progressed = false;
            for (i, s) in streams.iter_mut().enumerate() {
                if rep.answers[i] != Answer::Ok || rep.ended[i] || sc.roles[i] == Role::Pub {
                    continue;
                }
                match tokio::time::timeout(Duration::from_millis(50), s.next()).await {
                    Ok(Some(Ok(Frame::Message(m)))) => {
                        progressed = true;
                        let text = String::from_utf8_lossy(&m.message).to_string();
                        if sc.roles[i] == Role::Rep {
                            let _ = s.send(Frame::Message(MessagePayload { headers: m.headers.clone(), message: Bytes::from(format!("re:{text}")) })).await;
                        }
                        rep.later[i].push(text);
                    }
                    Ok(Some(Ok(Frame::Error(e)))) => {
                        progressed = true;
                        rep.later[i].push(format!("ERROR:{}", e.code));
                    }
                    Ok(Some(Ok(_))) => rep.later[i].push("OTHER".into()),
                    Ok(Some(Err(_))) | Ok(None) => {
                        progressed = true;
                        rep.ended[i] = true;
                    }
                    Err(_) => {}
                }
            }
            if tokio::time::Instant::now() >= deadline {
                break;
            }
            if !progressed {
                tokio::time::sleep(Duration::from_millis(100)).await;
            }
        }
        reports.push(rep);
        drop(streams);
        tokio::time::sleep(Duration::from_millis(200)).await;
    }
    Ok(reports)
}

pub fn execute(prop: &str, sc: &RaceScript, opts: &ExecOpts) -> Outcome {
    let mut out = Outcome::default();
    let sc2 = sc.clone();
    let res = run_world_yielding(sc.net, sc.rt_seed, Duration::from_secs(900), Some(sc.yield_ppm), move |world| scenario(world, sc2));
    let mut th = Hasher64::default();
    match res {
        Err(e) => {
            out.inconclusive = true;
            out.log.push(format!("world failed: {e:#}"));
        }
        Ok(r) => {
            fold(&mut out, prop, &r);
            match &r.value {
                None => out.violate(prop, "scenario-timeout", "registration-race", "the scenario did not finish within 900 virtual seconds".into()),
                Some(Err(e)) => setup_failed(&mut out, prop, "registration-race", &sc.net, e),
                Some(Ok(reports)) => {
                    let n = sc.roles.len();
                    let pubsub = |r: Role| r == Role::Pub || r == Role::Sub;
                    for (t, rep) in reports.iter().enumerate() {
                        for a in &rep.answers {
                            th.word(match a {
                                Answer::Ok => 1,
                                Answer::Error(c) => 100 + *c as u64,
                                _ => 7,
                            });
                        }
                        let sig = "registration-race";
                        let roles = &sc.roles;
                        let accepted: Vec<usize> = (0..n).filter(|i| rep.answers[*i] == Answer::Ok).collect();
                        // every registration is answered
                        for i in 0..n {
                            if !matches!(rep.answers[i], Answer::Ok | Answer::Error(_)) {
                                out.violate(prop, "registration-not-answered", sig, format!("topic {t}: {:?} number {i} of {roles:?} was answered {:?}", roles[i], rep.answers[i]));
                            }
                        }
                        // one kind per topic
                        let kinds_accepted: (bool, bool) = (accepted.iter().any(|i| pubsub(roles[*i])), accepted.iter().any(|i| !pubsub(roles[*i])));
                        if kinds_accepted == (true, true) {
                            out.violate(prop, "two-kinds-on-one-topic", sig, format!("topic {t}: peers of both messaging patterns were accepted on the same new topic ({roles:?} answered {:?})", rep.answers));
                        }
                        for i in 0..n {
                            if let Answer::Error(c) = rep.answers[i] {
                                let other_kind_accepted = accepted.iter().any(|j| pubsub(roles[*j]) != pubsub(roles[i]));
                                if c == TOPIC_KIND_MISMATCH && !other_kind_accepted {
                                    out.violate(prop, "refused-without-cause", sig, format!("topic {t}: {:?} number {i} was refused with TOPIC_KIND_MISMATCH although no peer of the other kind was accepted", roles[i]));
                                }
                                if c != TOPIC_KIND_MISMATCH {
                                    out.violate(prop, "unexpected-refusal", sig, format!("topic {t}: {:?} number {i} was refused with code {c} at registration", roles[i]));
                                }
                            }
                        }
                        // repliers: one bound, the others explicitly rejected
                        let reps: Vec<usize> = accepted.iter().cloned().filter(|i| roles[*i] == Role::Rep).collect();
                        if !reps.is_empty() {
                            let rejected: Vec<usize> = reps.iter().cloned().filter(|i| rep.later[*i].iter().any(|m| m == &format!("ERROR:{REPLIER_ALREADY_BOUND}"))).collect();
                            let silent: Vec<usize> = reps.iter().cloned().filter(|i| !rejected.contains(i) && rep.ended[*i]).collect();
                            let bound: Vec<usize> = reps.iter().cloned().filter(|i| !rejected.contains(i) && !rep.ended[*i]).collect();
                            if !silent.is_empty() {
                                out.violate(prop, "replier-accepted-then-dropped", sig, format!("topic {t}: repliers {silent:?} were answered Ok and then lost their stream without REPLIER_ALREADY_BOUND ({} racing repliers, {} rejected properly)", reps.len(), rejected.len()));
                            }
                            if bound.len() > 1 {
                                out.violate(prop, "several-repliers-bound", sig, format!("topic {t}: repliers {bound:?} all stayed bound to the same topic"));
                            }
                            let served: Vec<usize> = reps.iter().cloned().filter(|i| rep.later[*i].iter().any(|m| m.starts_with('Q'))).collect();
                            if served.len() > 1 {
                                out.violate(prop, "several-repliers-served", sig, format!("topic {t}: requests reached repliers {served:?}"));
                            }
                            // requestors get their answers when a replier is bound
                            for i in accepted.iter().cloned().filter(|i| roles[*i] == Role::Req) {
                                if bound.len() == 1 && !rep.later[i].iter().any(|m| *m == format!("re:Q{i}")) {
                                    out.violate(prop, "request-unanswered-after-race", sig, format!("topic {t}: requestor {i} was accepted, a replier is bound, its request was never answered (it received {:?})", rep.later[i]));
                                }
                            }
                        }
                        // pub/sub: every accepted subscriber gets every accepted publisher's message
                        let pubs: Vec<usize> = accepted.iter().cloned().filter(|i| roles[*i] == Role::Pub).collect();
                        for s in accepted.iter().cloned().filter(|i| roles[*i] == Role::Sub) {
                            for p in &pubs {
                                let c = rep.later[s].iter().filter(|m| **m == format!("P{p}")).count();
                                if c != 1 {
                                    out.violate(prop, if c == 0 { "message-lost-after-race" } else { "message-duplicated-after-race" }, sig, format!("topic {t}: subscriber {s} and publisher {p} were both accepted on the new topic; the subscriber received the publisher's message {c} times ({roles:?})"));
                                }
                            }
                            if rep.ended[s] {
                                out.violate(prop, "subscriber-accepted-then-dropped", sig, format!("topic {t}: subscriber {s} was answered Ok and then lost its stream"));
                            }
                        }
                    }
                    out.fault_n("simultaneous_first_registrations", (sc.roles.len() * sc.n_topics) as u64);
                    out.nontrivial = true;
                    out.steps = (sc.roles.len() * sc.n_topics) as u64;
                    if opts.want_log {
                        out.log.push(format!("roles {:?} one_connection {} yields {}", sc.roles, sc.one_connection, r.yields_injected));
                        for rep in reports {
                            out.log.push(format!("{rep:?}"));
                        }
                    }
                }
            }
            th.word(r.net_trace);
        }
    }
    out.trace_hash = th.finish();
    out.full_hash = th.finish();
    out
}

pub struct RegRace;
pub static REG_RACE: RegRace = RegRace;

impl Family for RegRace {
    fn name(&self) -> &'static str {
        "registration-race"
    }
    fn engine(&self) -> &'static str {
        "N"
    }
    fn generate(&self, _p: &str, _t: Tier, _i: u64, _n: u64, rng: &mut Rng) -> Value {
        serde_json::to_value(gen_script(rng)).unwrap()
    }
    fn execute(&self, property: &str, body: &Value, opts: &ExecOpts) -> Outcome {
        match serde_json::from_value::<RaceScript>(body.clone()) {
            Ok(sc) => execute(property, &sc, opts),
            Err(e) => {
                let mut o = Outcome::default();
                o.inconclusive = true;
                o.log.push(format!("bad script: {e}"));
                o
            }
        }
    }
    fn shrink(&self, body: &Value) -> Vec<Value> {
        let Ok(sc) = serde_json::from_value::<RaceScript>(body.clone()) else { return vec![] };
        let mut out = vec![];
        if sc.roles.len() > 2 {
            for i in 0..sc.roles.len() {
                let mut c = sc.clone();
                c.roles.remove(i);
                out.push(c);
            }
        }
        if sc.n_topics > 1 {
            let mut c = sc.clone();
            c.n_topics = 1;
            out.push(c);
        }
        out.into_iter().map(|s| serde_json::to_value(s).unwrap()).collect()
    }
    fn watchdog_ms(&self) -> u64 {
        40_000
    }
}
