//! SimNet: an in-memory UDP network for quinn endpoints, on the tokio (virtual) clock.
//!
//! Every datagram gets a seeded decision — drop / duplicate / delay — and is delivered by a timer
//! on the paused tokio clock. Partitions are sets of blocked (client group <-> server) links that
//! the scenario toggles. All randomness comes from the script's `net_seed`.

use crate::rng::{Hasher64, Rng};
use quinn::udp::{RecvMeta, Transmit, UdpState};
use quinn::{AsyncTimer, AsyncUdpSocket, Runtime};
use serde::{Deserialize, Serialize};
use std::collections::{HashMap, VecDeque};
use std::fmt;
use std::future::Future;
use std::io::{self, IoSliceMut};
use std::net::{IpAddr, Ipv4Addr, SocketAddr};
use std::pin::Pin;
use std::sync::{Arc, Mutex};
use std::task::{Context, Poll, Waker};
use std::time::{Duration, Instant};

#[derive(Clone, Copy, Debug, Serialize, Deserialize, PartialEq)]
pub struct NetCfg {
    pub seed: u64,
    /// per-datagram probabilities in parts per million
    pub loss_ppm: u32,
    pub dup_ppm: u32,
    pub min_delay_ms: u32,
    pub jitter_ms: u32,
}

impl NetCfg {
    pub fn calm(seed: u64) -> Self {
        NetCfg { seed, loss_ppm: 0, dup_ppm: 0, min_delay_ms: 1, jitter_ms: 0 }
    }
}

#[derive(Default, Clone, Debug)]
pub struct NetStats {
    pub sent: u64,
    pub delivered: u64,
    pub dropped: u64,
    pub duplicated: u64,
    pub partition_dropped: u64,
    pub no_route: u64,
    pub reordered: u64,
}

struct SockState {
    /// identity of the SimSocket that owns this address now (a restarted server re-binds the
    /// address; the dead process's socket must neither receive nor unbind it)
    id: u64,
    inbound: VecDeque<(SocketAddr, Vec<u8>)>,
    waker: Option<Waker>,
    group: u32,
}

pub struct NetInner {
    sockets: HashMap<SocketAddr, SockState>,
    rng: Rng,
    pub cfg: NetCfg,
    /// groups (client indices) whose link to the server is cut; u32::MAX = every client
    blocked: Vec<u32>,
    next_port: u16,
    next_sock_id: u64,
    debug_log: Option<std::fs::File>,
    pub stats: NetStats,
    pub trace: Hasher64,
    last_deliver_at: HashMap<(SocketAddr, SocketAddr), Instant>,
    /// first datagram time per source address (virtual ms since start), for backoff measurements
    pub first_send_ms: HashMap<SocketAddr, u64>,
    pub endpoints_created: Vec<(SocketAddr, u32, u64)>,
    start: Instant,
}

#[derive(Clone)]
pub struct SimNet {
    pub inner: Arc<Mutex<NetInner>>,
}

pub const SERVER_GROUP: u32 = 0xFFFF_0000;

pub fn server_addr() -> SocketAddr {
    SocketAddr::new(IpAddr::V4(Ipv4Addr::new(10, 0, 0, 1)), 7001)
}

pub fn now_std() -> Instant {
    tokio::time::Instant::now().into_std()
}

impl SimNet {
    pub fn new(cfg: NetCfg) -> Self {
        SimNet {
            inner: Arc::new(Mutex::new(NetInner {
                sockets: HashMap::new(),
                rng: Rng::new(cfg.seed),
                cfg,
                blocked: vec![],
                next_port: 20_000,
                next_sock_id: 1,
                debug_log: std::env::var("DST_NETLOG").ok().and_then(|p| std::fs::OpenOptions::new().create(true).append(true).open(p).ok()).map(|mut f| { use std::io::Write; let _ = writeln!(f, "=== run seed {}", cfg.seed); f }),
                stats: NetStats::default(),
                trace: Hasher64::default(),
                last_deliver_at: HashMap::new(),
                first_send_ms: HashMap::new(),
                endpoints_created: vec![],
                start: now_std(),
            })),
        }
    }

    fn lock(&self) -> std::sync::MutexGuard<'_, NetInner> {
        self.inner.lock().unwrap_or_else(|e| e.into_inner())
    }

    pub fn virtual_ms(&self) -> u64 {
        let i = self.lock();
        now_std().duration_since(i.start).as_millis() as u64
    }

    pub fn set_cfg(&self, cfg: NetCfg) {
        let mut i = self.lock();
        let seed = i.cfg.seed;
        i.cfg = cfg;
        i.cfg.seed = seed;
    }

    pub fn stats(&self) -> NetStats {
        self.lock().stats.clone()
    }

    pub fn trace_hash(&self) -> u64 {
        self.lock().trace.finish()
    }

    /// Cuts (or heals) the links between the given client group and the server.
    pub fn set_partition(&self, group: u32, cut: bool) {
        let mut i = self.lock();
        i.blocked.retain(|g| *g != group);
        if cut {
            i.blocked.push(group);
        }
    }

    pub fn heal_all(&self) {
        self.lock().blocked.clear();
    }

    pub fn bind_server(&self) -> SimSocket {
        self.bind_at(server_addr(), SERVER_GROUP)
    }

    pub fn bind_client(&self, group: u32) -> SimSocket {
        let addr = {
            let mut i = self.lock();
            i.next_port += 1;
            SocketAddr::new(IpAddr::V4(Ipv4Addr::new(10, 0, 1, (group % 250) as u8 + 1)), i.next_port)
        };
        self.bind_at(addr, group)
    }

    fn bind_at(&self, addr: SocketAddr, group: u32) -> SimSocket {
        let mut i = self.lock();
        let id = i.next_sock_id;
        i.next_sock_id += 1;
        i.sockets.insert(addr, SockState { id, inbound: VecDeque::new(), waker: None, group });
        let ms = now_std().duration_since(i.start).as_millis() as u64;
        i.endpoints_created.push((addr, group, ms));
        SimSocket { net: self.clone(), addr, id }
    }

    fn unbind(&self, addr: SocketAddr, id: u64) {
        let mut i = self.lock();
        if i.sockets.get(&addr).map(|s| s.id) == Some(id) {
            i.sockets.remove(&addr);
        }
    }

    /// Process death: whatever socket holds `addr` goes silent (no close is sent to anybody).
    pub fn kill(&self, addr: SocketAddr) {
        self.lock().sockets.remove(&addr);
    }

    fn owns(&self, addr: SocketAddr, id: u64) -> bool {
        self.lock().sockets.get(&addr).map(|s| s.id) == Some(id)
    }

    fn deliver(&self, src: SocketAddr, dst: SocketAddr, data: Vec<u8>) {
        let mut i = self.lock();
        let Some(s) = i.sockets.get_mut(&dst) else {
            i.stats.no_route += 1;
            return;
        };
        s.inbound.push_back((src, data));
        let w = s.waker.take();
        i.stats.delivered += 1;
        drop(i);
        if let Some(w) = w {
            w.wake();
        }
    }

    fn send(&self, src: SocketAddr, dst: SocketAddr, data: Vec<u8>) {
        let mut i = self.lock();
        i.stats.sent += 1;
        let now = now_std();
        let ms = now.duration_since(i.start).as_millis() as u64;
        i.first_send_ms.entry(src).or_insert(ms);
        let len = data.len() as u64;
        i.trace.word(ms);
        i.trace.word(((src.port() as u64) << 32) | ((dst.port() as u64) << 16) | (len & 0xffff));
        if let Some(log) = i.debug_log.as_mut() {
            use std::io::Write;
            let (c, b) = unsafe { (crate::worker::detrand_call_count(), crate::worker::detrand_byte_count()) };
            let _ = writeln!(log, "{ms} {}:{} -> {}:{} len {len} entropy_calls {c} bytes {b}", src.ip(), src.port(), dst.ip(), dst.port());
        }
        // partition?
        let sg = i.sockets.get(&src).map(|s| s.group);
        let dg = i.sockets.get(&dst).map(|s| s.group);
        let client_group = match (sg, dg) {
            (Some(SERVER_GROUP), Some(g)) | (Some(g), Some(SERVER_GROUP)) => Some(g),
            (Some(g), None) if g != SERVER_GROUP => Some(g),
            _ => None,
        };
        if let Some(g) = client_group {
            if i.blocked.contains(&g) || i.blocked.contains(&u32::MAX) {
                i.stats.partition_dropped += 1;
                return;
            }
        }
        let cfg = i.cfg;
        if cfg.loss_ppm > 0 && i.rng.below(1_000_000) < cfg.loss_ppm as u64 {
            i.stats.dropped += 1;
            return;
        }
        let copies = if cfg.dup_ppm > 0 && i.rng.below(1_000_000) < cfg.dup_ppm as u64 {
            i.stats.duplicated += 1;
            2
        } else {
            1
        };
        for _ in 0..copies {
            let jitter = if cfg.jitter_ms > 0 { i.rng.below(cfg.jitter_ms as u64 + 1) } else { 0 };
            let delay = Duration::from_millis(cfg.min_delay_ms as u64 + jitter);
            let at = now + delay;
            if let Some(prev) = i.last_deliver_at.get(&(src, dst)) {
                if at < *prev {
                    i.stats.reordered += 1;
                }
            }
            i.last_deliver_at.insert((src, dst), at);
            let net = self.clone();
            let data = data.clone();
            tokio::spawn(async move {
                tokio::time::sleep_until(tokio::time::Instant::from_std(at)).await;
                net.deliver(src, dst, data);
            });
        }
    }
}

pub struct SimSocket {
    net: SimNet,
    addr: SocketAddr,
    id: u64,
}

impl fmt::Debug for SimSocket {
    fn fmt(&self, f: &mut fmt::Formatter<'_>) -> fmt::Result {
        write!(f, "SimSocket({})", self.addr)
    }
}

impl Drop for SimSocket {
    fn drop(&mut self) {
        self.net.unbind(self.addr, self.id);
    }
}

impl AsyncUdpSocket for SimSocket {
    fn poll_send(&self, _state: &UdpState, _cx: &mut Context, transmits: &[Transmit]) -> Poll<Result<usize, io::Error>> {
        if !self.net.owns(self.addr, self.id) {
            // a dead process sends nothing
            return Poll::Ready(Ok(transmits.len()));
        }
        for t in transmits {
            match t.segment_size {
                Some(seg) if seg > 0 => {
                    for chunk in t.contents.chunks(seg) {
                        self.net.send(self.addr, t.destination, chunk.to_vec());
                    }
                }
                _ => self.net.send(self.addr, t.destination, t.contents.to_vec()),
            }
        }
        Poll::Ready(Ok(transmits.len()))
    }

    fn poll_recv(&self, cx: &mut Context, bufs: &mut [IoSliceMut<'_>], meta: &mut [RecvMeta]) -> Poll<io::Result<usize>> {
        let mut i = self.net.lock();
        let id = self.id;
        let Some(s) = i.sockets.get_mut(&self.addr).filter(|s| s.id == id) else {
            // a dead process receives nothing, ever
            return Poll::Pending;
        };
        let mut n = 0;
        while n < bufs.len() && n < meta.len() {
            let Some((src, data)) = s.inbound.pop_front() else { break };
            let len = data.len().min(bufs[n].len());
            bufs[n][..len].copy_from_slice(&data[..len]);
            meta[n] = RecvMeta { addr: src, len, stride: len, ecn: None, dst_ip: None };
            n += 1;
        }
        if n == 0 {
            s.waker = Some(cx.waker().clone());
            Poll::Pending
        } else {
            Poll::Ready(Ok(n))
        }
    }

    fn local_addr(&self) -> io::Result<SocketAddr> {
        Ok(self.addr)
    }

    fn may_fragment(&self) -> bool {
        false
    }
}

#[derive(Debug)]
pub struct SimRuntime;

impl Runtime for SimRuntime {
    fn new_timer(&self, t: Instant) -> Pin<Box<dyn AsyncTimer>> {
        Box::pin(tokio::time::sleep_until(tokio::time::Instant::from_std(t)))
    }
    fn spawn(&self, future: Pin<Box<dyn Future<Output = ()> + Send>>) {
        tokio::spawn(future);
    }
    fn wrap_udp_socket(&self, _t: std::net::UdpSocket) -> io::Result<Box<dyn AsyncUdpSocket>> {
        Err(io::Error::new(io::ErrorKind::Unsupported, "real sockets are not available inside the simulation"))
    }
}
