#![allow(dead_code)]
mod alloc_guard;
mod core;
mod panics;
mod registry;
mod rng;
mod rsim;
mod supervisor;
mod worker;
mod wsim;

#[global_allocator]
static GLOBAL: alloc_guard::Guard = alloc_guard::Guard;

use crate::core::Tier;

fn usage() -> ! {
    eprintln!("usage: dst check <property> [--tier quick|thorough]\n       dst replay <file> [--log]\n       dst gen <property> <family> <index> [--tier t]   (print a generated script)\n       dst worker   (internal)");
    std::process::exit(2)
}

fn main() {
    let args: Vec<String> = std::env::args().collect();
    if args.len() < 2 {
        usage();
    }
    match args[1].as_str() {
        "worker" => worker::worker_main(),
        "check" => {
            if args.len() < 3 {
                usage();
            }
            let mut tier = match std::env::var("VERIF_TIER").ok().as_deref() {
                Some("thorough") => Tier::Thorough,
                _ => Tier::Quick,
            };
            let mut i = 3;
            while i < args.len() {
                if args[i] == "--tier" && i + 1 < args.len() {
                    tier = if args[i + 1] == "thorough" { Tier::Thorough } else { Tier::Quick };
                    i += 1;
                }
                i += 1;
            }
            std::process::exit(supervisor::check(&args[2], tier));
        }
        "replay" => {
            if args.len() < 3 {
                usage();
            }
            let log = args.iter().any(|a| a == "--log");
            std::process::exit(supervisor::replay(&args[2], log));
        }
        "gen" => {
            if args.len() < 5 {
                usage();
            }
            let fam = registry::family(&args[3]).unwrap_or_else(|| usage());
            let idx: u64 = args[4].parse().unwrap_or(0);
            let sc = worker::make_script(&args[2], fam, Tier::Quick, supervisor::seed_from_env(), idx, 1);
            println!("{}", serde_json::to_string_pretty(&sc).unwrap());
        }
        _ => usage(),
    }
}
