#![allow(dead_code)]
mod alloc_guard;
mod core;
mod nsim;
mod panics;
mod registry;
mod rng;
mod rsim;
mod supervisor;
mod worker;
mod wsim;

#[global_allocator]
static GLOBAL: alloc_guard::Guard = alloc_guard::Guard;

use crate::core::Tier;

fn usage() -> ! {
    eprintln!("usage: dst check <property> [--tier quick|thorough]\n       dst replay <file> [--log]\n       dst gen <property> <family> <index> [--tier t]   (print a generated script)\n       dst worker   (internal)");
    std::process::exit(2)
}

fn main() {
    let args: Vec<String> = std::env::args().collect();
    if args.len() < 2 {
        usage();
    }
    match args[1].as_str() {
        "worker" => worker::worker_main(),
        "check" => {
            if args.len() < 3 {
                usage();
            }
            let mut tier = match std::env::var("VERIF_TIER").ok().as_deref() {
                Some("thorough") => Tier::Thorough,
                _ => Tier::Quick,
            };
            let mut i = 3;
            while i < args.len() {
                if args[i] == "--tier" && i + 1 < args.len() {
                    tier = if args[i + 1] == "thorough" { Tier::Thorough } else { Tier::Quick };
                    i += 1;
                }
                i += 1;
            }
            std::process::exit(supervisor::check(&args[2], tier));
        }
        "replay" => {
            if args.len() < 3 {
                usage();
            }
            let log = args.iter().any(|a| a == "--log");
            std::process::exit(supervisor::replay(&args[2], log));
        }
        "hashes" => {
            // dst hashes <property> <family> <start> <count> [step]: prints "index trace full" per run
            // (used by the determinism gate: outputs of separate processes must be identical)
            if args.len() < 6 {
                usage();
            }
            panics::install();
            let fam = registry::family(&args[3]).unwrap_or_else(|| usage());
            let start: u64 = args[4].parse().unwrap_or(0);
            let count: u64 = args[5].parse().unwrap_or(1);
            let step: u64 = args.get(6).and_then(|s| s.parse().ok()).unwrap_or(1);
            let seed = supervisor::seed_from_env();
            let warm = worker::make_script(&args[2], fam, Tier::Quick, 0x5EED_0000_0000_0001, 0, 1);
            let _ = worker::run_script(&warm, false);
            let mut i = start;
            for _ in 0..count {
                let sc = worker::make_script(&args[2], fam, Tier::Quick, seed, i, 1);
                let o = worker::run_script(&sc, false);
                println!("{i} {:016x} {:016x} v={} nv={}{}", o.trace_hash, o.full_hash, o.violations.len(), o.virtual_ms, if o.inconclusive { format!(" inconclusive {:?}", o.log.first()) } else { String::new() });
                i += step;
            }
        }
        "run" => {
            // dst run <property> <family> <index>: executes one generated script with its log (diagnostics)
            if args.len() < 5 {
                usage();
            }
            panics::install();
            let fam = registry::family(&args[3]).unwrap_or_else(|| usage());
            let idx: u64 = args[4].parse().unwrap_or(0);
            let sc = worker::make_script(&args[2], fam, Tier::Quick, supervisor::seed_from_env(), idx, 1);
            let o = worker::run_script(&sc, true);
            for l in &o.log {
                println!("  {l}");
            }
            for v in &o.violations {
                println!("violation: [{}] {} -- {}", v.tag, v.signature, v.detail);
            }
            println!("inconclusive={} nontrivial={} virtual_ms={}", o.inconclusive, o.nontrivial, o.virtual_ms);
        }
        "plans" => {
            // dst plans: "<property> <engine> <family> <quick> <thorough>" per plan item (used to keep DESIGN.md in step)
            for p in registry::properties() {
                if let Some(plan) = registry::plan(p) {
                    for it in &plan.items {
                        println!("{p} {} {} {} {}", it.family.engine(), it.family.name(), it.quick, it.thorough);
                    }
                }
            }
        }
        "gen" => {
            if args.len() < 5 {
                usage();
            }
            let fam = registry::family(&args[3]).unwrap_or_else(|| usage());
            let idx: u64 = args[4].parse().unwrap_or(0);
            let sc = worker::make_script(&args[2], fam, Tier::Quick, supervisor::seed_from_env(), idx, 1);
            println!("{}", serde_json::to_string_pretty(&sc).unwrap());
        }
        _ => usage(),
    }
}
