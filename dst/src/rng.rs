//! The generator's PRNG. One integer (VERIF_SEED) decides every script; the executor never draws
//! from this (it is a pure function of the script and the code under test).

#[derive(Clone, Debug)]
pub struct Rng(u64);

pub fn splitmix(mut z: u64) -> u64 {
    z = z.wrapping_add(0x9E3779B97F4A7C15);
    z = (z ^ (z >> 30)).wrapping_mul(0xBF58476D1CE4E5B9);
    z = (z ^ (z >> 27)).wrapping_mul(0x94D049BB133111EB);
    z ^ (z >> 31)
}

pub fn fnv(s: &str) -> u64 {
    let mut h = 0xcbf29ce484222325u64;
    for b in s.bytes() {
        h ^= b as u64;
        h = h.wrapping_mul(0x100000001b3);
    }
    h
}

/// Seed of run `index` of `family` for property `prop` under `verif_seed`.
pub fn run_seed(verif_seed: u64, prop: &str, family: &str, index: u64) -> u64 {
    splitmix(splitmix(verif_seed ^ fnv(prop)) ^ splitmix(fnv(family)).wrapping_add(index.wrapping_mul(0x9E3779B97F4A7C15)))
}

impl Rng {
    pub fn new(seed: u64) -> Self {
        Rng(splitmix(seed))
    }
    pub fn next(&mut self) -> u64 {
        self.0 = self.0.wrapping_add(0x9E3779B97F4A7C15);
        let mut z = self.0;
        z = (z ^ (z >> 30)).wrapping_mul(0xBF58476D1CE4E5B9);
        z = (z ^ (z >> 27)).wrapping_mul(0x94D049BB133111EB);
        z ^ (z >> 31)
    }
    /// uniform in 0..n (n > 0)
    pub fn below(&mut self, n: u64) -> u64 {
        debug_assert!(n > 0);
        ((self.next() as u128 * n as u128) >> 64) as u64
    }
    pub fn range(&mut self, lo: u64, hi_incl: u64) -> u64 {
        lo + self.below(hi_incl - lo + 1)
    }
    pub fn usize(&mut self, lo: usize, hi_incl: usize) -> usize {
        self.range(lo as u64, hi_incl as u64) as usize
    }
    pub fn chance(&mut self, num: u64, den: u64) -> bool {
        self.below(den) < num
    }
    pub fn pick<'a, T>(&mut self, xs: &'a [T]) -> &'a T {
        &xs[self.below(xs.len() as u64) as usize]
    }
    pub fn shuffle<T>(&mut self, xs: &mut [T]) {
        for i in (1..xs.len()).rev() {
            let j = self.below(i as u64 + 1) as usize;
            xs.swap(i, j);
        }
    }
    pub fn bytes(&mut self, n: usize) -> Vec<u8> {
        let mut v = Vec::with_capacity(n);
        while v.len() < n {
            let x = self.next().to_le_bytes();
            let k = (n - v.len()).min(8);
            v.extend_from_slice(&x[..k]);
        }
        v
    }
    pub fn fork(&mut self) -> Rng {
        Rng::new(self.next())
    }
}

/// Incremental trace hasher (FNV-1a over u64 words).
#[derive(Clone, Copy, Debug)]
pub struct Hasher64(pub u64);
impl Default for Hasher64 {
    fn default() -> Self {
        Hasher64(0xcbf29ce484222325)
    }
}
impl Hasher64 {
    pub fn word(&mut self, w: u64) {
        let mut h = self.0;
        for i in 0..8 {
            h ^= (w >> (8 * i)) & 0xff;
            h = h.wrapping_mul(0x100000001b3);
        }
        self.0 = h;
    }
    pub fn bytes(&mut self, b: &[u8]) {
        let mut h = self.0;
        for x in b {
            h ^= *x as u64;
            h = h.wrapping_mul(0x100000001b3);
        }
        self.0 = h;
    }
    pub fn finish(&self) -> u64 {
        splitmix(self.0)
    }
}
