//! Supervisor: shards a check over worker processes, watches them, turns worker deaths and hangs
//! into candidate violations, minimises and replays every violation before reporting it, applies
//! the known-findings file, and writes the evidence file.

use crate::core::*;
use crate::registry;
use crate::worker::{body_hash, make_script, Cmd, RangeCmd, RangeStats};
use serde::{Deserialize, Serialize};
use serde_json::{json, Value};
use std::collections::{BTreeMap, HashMap, HashSet};
use std::io::{BufRead, BufReader, Read, Write};
use std::os::unix::process::ExitStatusExt;
use std::path::{Path, PathBuf};
use std::process::{Child, ChildStdin, Command, Stdio};
use std::sync::mpsc::{channel, Receiver, RecvTimeoutError, Sender};
use std::time::{Duration, Instant};

pub fn verif_dir() -> PathBuf {
    PathBuf::from(std::env::var("VERIF_DIR").unwrap_or_else(|_| "/verif".into()))
}

fn scratch_dir() -> PathBuf {
    let d = verif_dir().join("dst/target/run").join(format!("{}", std::process::id()));
    let _ = std::fs::create_dir_all(&d);
    d
}

pub const DEFAULT_SEED: u64 = 20_261_002;

pub fn seed_from_env() -> u64 {
    std::env::var("VERIF_SEED").ok().and_then(|s| s.trim().parse::<u64>().ok()).unwrap_or(DEFAULT_SEED)
}

enum Msg {
    Line(usize, Value),
    Eof(usize),
}

struct Worker {
    child: Child,
    stdin: Option<ChildStdin>,
    /// commands not yet acknowledged by a `done`
    pending: Vec<RangeCmd>,
    respawns: u32,
    progress_path: PathBuf,
}

fn spawn_worker(id: usize, tx: &Sender<Msg>) -> std::io::Result<(Child, ChildStdin)> {
    let exe = std::env::current_exe()?;
    // worker stderr (abort messages of the code under test) goes to a log file, not to the check's output
    let logdir = verif_dir().join("dst/target/run");
    let _ = std::fs::create_dir_all(&logdir);
    let stderr = std::fs::OpenOptions::new().create(true).append(true).open(logdir.join("workers.stderr.log")).map(Stdio::from).unwrap_or_else(|_| Stdio::null());
    let mut child = Command::new(exe).arg("worker").env("RUST_BACKTRACE", "0").stdin(Stdio::piped()).stdout(Stdio::piped()).stderr(stderr).spawn()?;
    let stdout = child.stdout.take().unwrap();
    let stdin = child.stdin.take().unwrap();
    let tx = tx.clone();
    std::thread::spawn(move || {
        let r = BufReader::new(stdout);
        for line in r.lines() {
            let Ok(line) = line else { break };
            if let Ok(v) = serde_json::from_str::<Value>(&line) {
                let _ = tx.send(Msg::Line(id, v));
            }
        }
        let _ = tx.send(Msg::Eof(id));
    });
    Ok((child, stdin))
}

fn send_cmds(stdin: &mut ChildStdin, cmds: &[RangeCmd]) {
    for c in cmds {
        let _ = writeln!(stdin, "{}", serde_json::to_string(&Cmd::Range(c.clone())).unwrap());
    }
    let _ = writeln!(stdin, "{}", serde_json::to_string(&Cmd::Quit).unwrap());
    let _ = stdin.flush();
}

#[derive(Clone, Debug, Serialize, Deserialize)]
pub struct Found {
    pub script: Script,
    pub violation: Violation,
}

// ---------------------------------------------------------------------------------------------
// exec client: a persistent child used for minimisation and replay
// ---------------------------------------------------------------------------------------------

pub enum ExecResult {
    Outcome(Outcome),
    Crashed(String),
    Hung(u64),
}

pub struct ExecClient {
    child: Option<Child>,
    stdin: Option<ChildStdin>,
    rx: Option<Receiver<Msg>>,
}

impl ExecClient {
    pub fn new() -> Self {
        ExecClient { child: None, stdin: None, rx: None }
    }
    fn ensure(&mut self) {
        if self.child.is_some() {
            return;
        }
        let (tx, rx) = channel();
        let (child, stdin) = spawn_worker(0, &tx).expect("spawn exec worker");
        self.child = Some(child);
        self.stdin = Some(stdin);
        self.rx = Some(rx);
    }
    pub fn kill(&mut self) {
        if let Some(mut c) = self.child.take() {
            let _ = c.kill();
            let _ = c.wait();
        }
        self.stdin = None;
        self.rx = None;
    }
    pub fn exec(&mut self, script: &Script, log: bool) -> ExecResult {
        self.ensure();
        let watchdog = registry::family(&script.family).map(|f| f.watchdog_ms()).unwrap_or(20_000);
        let line = serde_json::to_string(&Cmd::Exec { script: script.clone(), log }).unwrap();
        let ok = {
            let s = self.stdin.as_mut().unwrap();
            writeln!(s, "{line}").and_then(|_| s.flush()).is_ok()
        };
        if !ok {
            self.kill();
            return ExecResult::Crashed("worker pipe closed".into());
        }
        let deadline = Instant::now() + Duration::from_millis(watchdog * 3 + 10_000);
        loop {
            let left = deadline.saturating_duration_since(Instant::now());
            match self.rx.as_ref().unwrap().recv_timeout(left) {
                Ok(Msg::Line(_, v)) => match v.get("type").and_then(|t| t.as_str()) {
                    Some("outcome") => {
                        let o: Outcome = serde_json::from_value(v["outcome"].clone()).unwrap_or_default();
                        return ExecResult::Outcome(o);
                    }
                    Some("hang") => {
                        let ms = v["after_ms"].as_u64().unwrap_or(0);
                        self.kill();
                        return ExecResult::Hung(ms);
                    }
                    _ => continue,
                },
                Ok(Msg::Eof(_)) => {
                    let status = self.child.as_mut().and_then(|c| c.wait().ok());
                    let desc = describe_status(status);
                    self.kill();
                    return ExecResult::Crashed(desc);
                }
                Err(RecvTimeoutError::Timeout) => {
                    self.kill();
                    return ExecResult::Hung(watchdog * 3 + 10_000);
                }
                Err(RecvTimeoutError::Disconnected) => {
                    self.kill();
                    return ExecResult::Crashed("worker vanished".into());
                }
            }
        }
    }
}

impl Drop for ExecClient {
    fn drop(&mut self) {
        if let Some(s) = self.stdin.as_mut() {
            let _ = writeln!(s, "{}", serde_json::to_string(&Cmd::Quit).unwrap());
        }
        self.kill();
    }
}

fn describe_status(status: Option<std::process::ExitStatus>) -> String {
    match status {
        Some(s) => {
            if let Some(sig) = s.signal() {
                format!("signal-{sig}")
            } else {
                format!("exit-{}", s.code().unwrap_or(-1))
            }
        }
        None => "unknown".into(),
    }
}

/// Violations of `script` as seen through the exec client (process death and hangs included).
pub fn violations_of(client: &mut ExecClient, script: &Script, log: bool) -> (Vec<Violation>, Option<Outcome>) {
    match client.exec(script, log) {
        ExecResult::Outcome(o) => (o.violations.clone(), Some(o)),
        ExecResult::Crashed(desc) => (
            vec![Violation {
                property: script.property.clone(),
                tag: "process-abort".into(),
                signature: format!("{}:{}", script.family, desc),
                detail: format!("the worker process died ({desc}) while executing this script"),
            }],
            None,
        ),
        ExecResult::Hung(ms) => (
            vec![Violation {
                property: script.property.clone(),
                tag: "process-hang".into(),
                signature: script.family.clone(),
                detail: format!("the run did not finish within its wall-clock watchdog ({ms} ms): a poll never returned"),
            }],
            None,
        ),
    }
}

pub fn minimise(client: &mut ExecClient, found: &Found, budget_execs: usize, budget: Duration) -> (Script, usize) {
    let Some(fam) = registry::family(&found.script.family) else { return (found.script.clone(), 0) };
    let class = found.violation.class();
    let mut best = found.script.clone();
    let mut execs = 0usize;
    let t0 = Instant::now();
    let mut improved = true;
    while improved && execs < budget_execs && t0.elapsed() < budget {
        improved = false;
        for cand in fam.shrink(&best.body) {
            if execs >= budget_execs || t0.elapsed() >= budget {
                break;
            }
            if body_hash(&cand) == body_hash(&best.body) {
                continue;
            }
            let mut sc = best.clone();
            sc.body = cand;
            execs += 1;
            let (vs, _) = violations_of(client, &sc, false);
            if vs.iter().any(|v| v.class() == class) {
                best = sc;
                improved = true;
                break;
            }
        }
    }
    (best, execs)
}

// ---------------------------------------------------------------------------------------------
// known findings
// ---------------------------------------------------------------------------------------------

#[derive(Clone, Debug, Serialize, Deserialize)]
pub struct KnownFinding {
    pub property: String,
    /// "open" (recorded, not repaired) or "fixed" (repaired; suppresses nothing)
    pub status: String,
    pub tag: String,
    pub signature: String,
    pub what: String,
    #[serde(default)]
    pub replay: Option<String>,
    #[serde(default)]
    pub commit: Option<String>,
    #[serde(default)]
    pub fixed_line: Option<String>,
}

#[derive(Clone, Debug, Default, Serialize, Deserialize)]
pub struct KnownFindings {
    pub findings: Vec<KnownFinding>,
}

pub fn load_known() -> KnownFindings {
    let p = verif_dir().join("known_findings.json");
    match std::fs::read_to_string(&p) {
        Ok(s) => serde_json::from_str(&s).unwrap_or_default(),
        Err(_) => KnownFindings::default(),
    }
}

fn known_match<'a>(k: &'a KnownFindings, v: &Violation) -> Option<&'a KnownFinding> {
    k.findings.iter().find(|f| f.status == "open" && f.property == v.property && f.tag == v.tag && f.signature == v.signature)
}

// ---------------------------------------------------------------------------------------------
// replay files
// ---------------------------------------------------------------------------------------------

#[derive(Clone, Debug, Serialize, Deserialize)]
pub struct ReplayFile {
    pub property: String,
    pub violation: Violation,
    pub script: Script,
    #[serde(default)]
    pub original_steps_hash: u64,
    #[serde(default)]
    pub minimisation_execs: usize,
    #[serde(default)]
    pub note: String,
}

pub fn write_replay(found: &Found, minimised: &Script, execs: usize, dir: &Path) -> PathBuf {
    let _ = std::fs::create_dir_all(dir);
    let h = body_hash(&minimised.body) ^ crate::rng::fnv(&found.violation.class());
    let path = dir.join(format!("{}-{:012x}.json", found.violation.property, h & 0xffff_ffff_ffff));
    let rf = ReplayFile {
        property: found.violation.property.clone(),
        violation: found.violation.clone(),
        script: minimised.clone(),
        original_steps_hash: body_hash(&found.script.body),
        minimisation_execs: execs,
        note: "replay with: ./dst.sh replay <this file>".into(),
    };
    let _ = std::fs::write(&path, serde_json::to_string_pretty(&rf).unwrap());
    path
}

/// `dst replay <path>`: exit 1 + VIOLATION line if the recorded violation class reproduces.
pub fn replay(path: &str, want_log: bool) -> i32 {
    let Ok(text) = std::fs::read_to_string(path) else {
        eprintln!("cannot read {path}");
        return 2;
    };
    let rf: ReplayFile = match serde_json::from_str(&text) {
        Ok(r) => r,
        Err(e) => {
            eprintln!("bad replay file: {e}");
            return 2;
        }
    };
    println!("seed entropy_seed={} gen_seed={} gen_index={} family={}", rf.script.entropy_seed, rf.script.gen_seed, rf.script.gen_index, rf.script.family);
    let mut client = ExecClient::new();
    let (vs, o) = violations_of(&mut client, &rf.script, want_log);
    if let Some(o) = &o {
        if want_log {
            for l in &o.log {
                println!("  {l}");
            }
        }
        println!("trace_hash={:016x} full_hash={:016x} steps={} virtual_ms={}", o.trace_hash, o.full_hash, o.steps, o.virtual_ms);
    }
    for v in &vs {
        println!("observed: {} [{}] {} -- {}", v.property, v.tag, v.signature, v.detail);
    }
    if vs.iter().any(|v| v.class() == rf.violation.class()) {
        let known = load_known();
        if let Some(k) = known_match(&known, &rf.violation) {
            println!("KNOWN-FINDING: property={} {}", k.property, k.what);
        }
        println!("VIOLATION property={} replay={}", rf.property, path);
        1
    } else {
        println!("not reproduced: the recorded violation class {} did not occur", rf.violation.class());
        0
    }
}

// ---------------------------------------------------------------------------------------------
// check
// ---------------------------------------------------------------------------------------------

fn read_progress(p: &Path) -> Option<(u64, u64)> {
    let mut f = std::fs::File::open(p).ok()?;
    let mut buf = [0u8; 16];
    f.read_exact(&mut buf).ok()?;
    Some((u64::from_le_bytes(buf[..8].try_into().unwrap()), u64::from_le_bytes(buf[8..].try_into().unwrap())))
}

fn merge_hashes(path: &Path, bodies: &mut HashSet<u64>, traces: &mut HashSet<u64>) {
    let Ok(buf) = std::fs::read(path) else { return };
    let word = |i: usize| -> u64 { u64::from_le_bytes(buf[i * 8..i * 8 + 8].try_into().unwrap()) };
    if buf.len() < 8 {
        return;
    }
    let nb = word(0) as usize;
    for i in 0..nb {
        bodies.insert(word(1 + i));
    }
    let nt = word(1 + nb) as usize;
    for i in 0..nt {
        traces.insert(word(2 + nb + i));
    }
    let _ = std::fs::remove_file(path);
}

pub fn check(property: &str, tier: Tier) -> i32 {
    let t0 = Instant::now();
    let seed = seed_from_env();
    let Some(plan) = registry::plan(property) else {
        eprintln!("no check registered for {property}");
        return 2;
    };
    println!("check property={property} tier={} VERIF_SEED={seed}", tier.as_str());
    let scale: f64 = std::env::var("VERIF_SCALE").ok().and_then(|s| s.parse().ok()).unwrap_or(1.0);
    let n_workers: usize = std::env::var("VERIF_WORKERS").ok().and_then(|s| s.parse().ok()).unwrap_or_else(|| std::thread::available_parallelism().map(|n| n.get()).unwrap_or(4)).max(1);
    let scratch = scratch_dir();
    let (tx, rx) = channel::<Msg>();
    // one shard per worker, every plan item sharded round-robin
    let mut workers: Vec<Worker> = vec![];
    let mut totals: Vec<u64> = vec![];
    for it in &plan.items {
        let n = match tier {
            Tier::Quick => it.quick,
            Tier::Thorough => it.thorough,
        };
        // diagnostics only (mutant triage): restrict a check to one family
        let only = std::env::var("VERIF_ONLY_FAMILY").ok();
        let skip = only.as_deref().is_some_and(|f| f != it.family.name());
        totals.push(if skip { 0 } else { ((n as f64) * scale).ceil() as u64 });
    }
    for w in 0..n_workers {
        let progress_path = scratch.join(format!("progress-{w}.bin"));
        let mut cmds = vec![];
        for (i, it) in plan.items.iter().enumerate() {
            if totals[i] == 0 || (w as u64) >= totals[i] {
                continue;
            }
            cmds.push(RangeCmd {
                property: property.to_string(),
                family: it.family.name().to_string(),
                tier,
                seed,
                start: w as u64,
                step: n_workers as u64,
                end: totals[i],
                total: totals[i],
                progress_path: progress_path.to_string_lossy().to_string(),
                hashes_path: scratch.join(format!("hashes-{w}-{i}.bin")).to_string_lossy().to_string(),
                item: i as u64,
                max_violations: 8,
                dupcheck_every: 50,
            });
        }
        if cmds.is_empty() {
            continue;
        }
        let id = workers.len();
        let (child, mut stdin) = match spawn_worker(id, &tx) {
            Ok(x) => x,
            Err(e) => {
                eprintln!("cannot spawn worker: {e}");
                return 2;
            }
        };
        send_cmds(&mut stdin, &cmds);
        workers.push(Worker { child, stdin: Some(stdin), pending: cmds, respawns: 0, progress_path });
    }
    let mut live = workers.len();
    let mut stats: Vec<RangeStats> = vec![];
    let mut found: Vec<Found> = vec![];
    let mut divergences: Vec<Value> = vec![];
    let mut harness_errors: Vec<String> = vec![];
    let mut hang_reported: HashMap<usize, (u64, u64)> = HashMap::new();
    let mut bodies: HashSet<u64> = HashSet::new();
    let mut traces: HashSet<u64> = HashSet::new();
    while live > 0 {
        let msg = match rx.recv_timeout(Duration::from_secs(3600)) {
            Ok(m) => m,
            Err(_) => {
                harness_errors.push("supervisor timed out waiting for workers".into());
                break;
            }
        };
        match msg {
            Msg::Line(id, v) => match v.get("type").and_then(|t| t.as_str()) {
                Some("done") => {
                    if let Ok(s) = serde_json::from_value::<RangeStats>(v["stats"].clone()) {
                        let w = &mut workers[id];
                        if let Some(pos) = w.pending.iter().position(|c| c.item == s.item) {
                            let c = w.pending.remove(pos);
                            merge_hashes(Path::new(&c.hashes_path), &mut bodies, &mut traces);
                        }
                        for e in &s.harness_errors {
                            harness_errors.push(e.clone());
                        }
                        stats.push(s);
                    }
                }
                Some("violation") => {
                    if let (Ok(script), Ok(vs)) = (serde_json::from_value::<Script>(v["script"].clone()), serde_json::from_value::<Vec<Violation>>(v["violations"].clone())) {
                        for violation in vs {
                            if found.len() < 4000 {
                                found.push(Found { script: script.clone(), violation });
                            }
                        }
                    }
                }
                Some("divergence") => {
                    if divergences.len() < 5 {
                        divergences.push(v["script"].clone());
                    }
                }
                Some("hang") => {
                    hang_reported.insert(id, (v["item"].as_u64().unwrap_or(0), v["index"].as_u64().unwrap_or(0)));
                }
                Some("error") => harness_errors.push(v["message"].as_str().unwrap_or("?").to_string()),
                _ => {}
            },
            Msg::Eof(id) => {
                let status = workers[id].child.wait().ok();
                let clean = workers[id].pending.is_empty();
                if clean {
                    live -= 1;
                    continue;
                }
                // the worker died or hung mid-range: attribute to the script in flight
                let (item, index, tag, desc) = if let Some((item, index)) = hang_reported.remove(&id) {
                    (item, index, "process-hang", "watchdog".to_string())
                } else if let Some((item, index)) = read_progress(&workers[id].progress_path) {
                    (item, index, "process-abort", describe_status(status))
                } else {
                    harness_errors.push(format!("worker {id} died ({}) before its first run", describe_status(status)));
                    live -= 1;
                    continue;
                };
                let w = &mut workers[id];
                if let Some(cmd) = w.pending.iter().find(|c| c.item == item).cloned() {
                    let fam = registry::family(&cmd.family).unwrap();
                    let script = make_script(property, fam, tier, seed, index, cmd.total);
                    let violation = if tag == "process-hang" {
                        Violation { property: property.to_string(), tag: tag.into(), signature: cmd.family.clone(), detail: "the run did not finish within its wall-clock watchdog: a poll never returned".into() }
                    } else {
                        Violation { property: property.to_string(), tag: tag.into(), signature: format!("{}:{}", cmd.family, desc), detail: format!("the worker process died ({desc}) while executing this script") }
                    };
                    found.push(Found { script, violation });
                    // resume after the failed index
                    let mut rest: Vec<RangeCmd> = vec![];
                    for c in w.pending.iter() {
                        let mut c = c.clone();
                        if c.item == item {
                            c.start = index + c.step;
                        } else if c.item < item {
                            continue;
                        }
                        // partial statistics of the interrupted range are lost; say so
                        rest.push(c);
                    }
                    w.pending = rest.clone();
                    w.respawns += 1;
                    if w.respawns > 6 {
                        harness_errors.push(format!("worker {id}: too many restarts, remaining runs of this shard skipped"));
                        live -= 1;
                        continue;
                    }
                    match spawn_worker(id, &tx) {
                        Ok((child, mut stdin)) => {
                            send_cmds(&mut stdin, &rest);
                            w.child = child;
                            w.stdin = Some(stdin);
                        }
                        Err(e) => {
                            harness_errors.push(format!("respawn failed: {e}"));
                            live -= 1;
                        }
                    }
                } else {
                    live -= 1;
                }
            }
        }
    }
    for w in &mut workers {
        w.stdin = None;
        let _ = w.child.kill();
        let _ = w.child.wait();
    }

    // ---- triage: one representative per violation class, minimised and replayed ----
    let known = load_known();
    let mut classes: BTreeMap<String, Vec<Found>> = BTreeMap::new();
    for f in found.iter() {
        classes.entry(f.violation.class()).or_default().push(f.clone());
    }
    let engine = plan.items.first().map(|i| i.family.engine()).unwrap_or("R");
    let (min_execs, min_time) = match (engine, tier) {
        ("N", Tier::Quick) => (60, Duration::from_secs(60)),
        ("N", Tier::Thorough) => (200, Duration::from_secs(240)),
        (_, Tier::Quick) => (600, Duration::from_secs(30)),
        (_, Tier::Thorough) => (3000, Duration::from_secs(120)),
    };
    // (mutation trials redirect replays and evidence so the committed files stay those of the real tree)
    let replay_dir = std::env::var("VERIF_REPLAY_DIR").map(PathBuf::from).unwrap_or_else(|_| verif_dir().join("replays"));
    let mut reported: Vec<Value> = vec![];
    let mut new_violations = 0u64;
    let mut known_hits: Vec<String> = vec![];
    let mut unreproducible = 0u64;
    let mut client = ExecClient::new();
    let mut processed = 0;
    for (class, items) in classes.iter() {
        if processed >= 8 {
            // still a violation; report unminimised
        }
        processed += 1;
        // smallest script (by serialized size) among the first few as the starting point
        let mut cands: Vec<&Found> = items.iter().take(16).collect();
        cands.sort_by_key(|f| serde_json::to_string(&f.script.body).map(|s| s.len()).unwrap_or(0));
        let start = cands[0].clone();
        let is_known = known_match(&known, &start.violation).cloned();
        let (min_script, execs) = if processed <= 8 && is_known.is_none() {
            minimise(&mut client, &start, min_execs, min_time)
        } else {
            (start.script.clone(), 0)
        };
        // replay in a fresh process before reporting
        let mut fresh = ExecClient::new();
        let (vs, _) = violations_of(&mut fresh, &min_script, false);
        drop(fresh);
        let reproduced = vs.iter().any(|v| &v.class() == class);
        if !reproduced {
            unreproducible += 1;
            harness_errors.push(format!("violation class {class} did not reproduce in a fresh process (script index {})", start.script.gen_index));
            continue;
        }
        if let Some(k) = is_known {
            println!("KNOWN-FINDING: property={} {}", k.property, k.what);
            known_hits.push(format!("{}|{}", k.tag, k.signature));
            reported.push(json!({"class": class, "known": true, "occurrences": items.len()}));
            continue;
        }
        let path = write_replay(&start, &min_script, execs, &replay_dir);
        println!("violation: [{}] {} -- {}", start.violation.tag, start.violation.signature, start.violation.detail);
        println!("VIOLATION property={} replay={}", property, path.display());
        new_violations += 1;
        reported.push(json!({"class": class, "known": false, "occurrences": items.len(), "replay": path.to_string_lossy(), "minimisation_execs": execs}));
    }
    // listed open findings that this run did not meet: replay their stored scripts
    for k in known.findings.iter().filter(|k| k.status == "open" && k.property == property) {
        let key = format!("{}|{}", k.tag, k.signature);
        if known_hits.contains(&key) {
            continue;
        }
        if let Some(rp) = &k.replay {
            let p = verif_dir().join(rp);
            if let Ok(text) = std::fs::read_to_string(&p) {
                if let Ok(rf) = serde_json::from_str::<ReplayFile>(&text) {
                    let (vs, _) = violations_of(&mut client, &rf.script, false);
                    if vs.iter().any(|v| v.class() == rf.violation.class()) {
                        println!("KNOWN-FINDING: property={} {}", k.property, k.what);
                        known_hits.push(key);
                    } else {
                        println!("note: known finding [{}] {} no longer reproduces from {}", k.tag, k.signature, rp);
                    }
                }
            }
        }
    }
    drop(client);

    // ---- evidence ----
    let wall = t0.elapsed().as_secs_f64();
    let mut evaluations = 0u64;
    let mut nontrivial_runs = 0u64;
    let mut inconclusive = 0u64;
    let mut virtual_ms = 0u64;
    let mut steps = 0u64;
    let mut dup_checked = 0u64;
    let mut dup_diverged = 0u64;
    let mut probes: BTreeMap<String, u64> = BTreeMap::new();
    let mut faults: BTreeMap<String, u64> = BTreeMap::new();
    let mut per_family: BTreeMap<String, (u64, u64)> = BTreeMap::new();
    let mut samples: Vec<Value> = vec![];
    for s in &stats {
        evaluations += s.evaluations;
        nontrivial_runs += s.nontrivial;
        inconclusive += s.inconclusive;
        virtual_ms += s.virtual_ms;
        steps += s.steps;
        dup_checked += s.dup_checked;
        dup_diverged += s.dup_diverged;
        for (k, v) in &s.probes {
            if k.starts_with("max_") {
                let e = probes.entry(k.clone()).or_insert(0);
                *e = (*e).max(*v);
            } else {
                *probes.entry(k.clone()).or_insert(0) += v;
            }
        }
        for (k, v) in &s.faults {
            *faults.entry(k.clone()).or_insert(0) += v;
        }
        let e = per_family.entry(s.family.clone()).or_insert((0, 0));
        e.0 += s.evaluations;
        e.1 += s.nontrivial;
        for smp in &s.samples {
            if samples.len() < 4 && !samples.iter().any(|x: &Value| x["family"] == smp["family"] && samples.len() >= plan.items.len()) {
                samples.push(smp.clone());
            }
        }
    }
    if samples.is_empty() {
        // fall back to the first generated script so the list is never empty
        if let Some(it) = plan.items.first() {
            samples.push(serde_json::to_value(make_script(property, it.family, tier, seed, 0, 1)).unwrap());
        }
    }
    let exhaustive_notes: Vec<String> = plan.items.iter().filter_map(|i| i.family.exhaustive_note(property, tier)).collect();
    let families: Vec<Value> = plan
        .items
        .iter()
        .enumerate()
        .map(|(i, it)| {
            let (e, n) = per_family.get(it.family.name()).cloned().unwrap_or((0, 0));
            json!({"family": it.family.name(), "engine": it.family.engine(), "planned": totals[i], "executed": e, "nontrivial": n})
        })
        .collect();
    let mut coverage = json!({
        "evaluations": evaluations,
        "distinct_nontrivial": bodies.len() as u64,
        "rule": plan.rule,
        "samples": samples,
        "nontrivial_runs": nontrivial_runs,
        "distinct_interleavings": traces.len() as u64,
        "interleaving_measure": "distinct hashes of the abstract event trace of a run (R: sequence of (mock, operation, outcome); W: cut positions and outcomes; N: sequence of (actor, operation, result class) without timestamps)",
        "families": families,
        "inconclusive_runs": inconclusive,
        "simulated_seconds": (virtual_ms as f64) / 1000.0,
        "script_steps": steps,
        "runs_per_hour": if wall > 0.0 { (evaluations as f64 / wall * 3600.0) as u64 } else { 0 },
        "seeds_per_hour": if wall > 0.0 { (evaluations as f64 / wall * 3600.0) as u64 } else { 0 },
        "faults_fired": faults,
        "probes": probes,
        "determinism_reruns": dup_checked,
        "determinism_divergences": dup_diverged,
        "components_real": plan.real,
        "components_stubbed": plan.stubbed,
        "violation_classes": reported,
        "known_findings_met": known_hits,
        "unreproducible_candidates": unreproducible,
        "harness_errors": harness_errors,
        "workers": n_workers,
    });
    if !exhaustive_notes.is_empty() {
        coverage["exhaustive"] = json!(true);
        coverage["exhaustive_space"] = json!(exhaustive_notes);
    }
    let evidence = json!({
        "property_id": property,
        "tier": tier.as_str(),
        "seed": seed,
        "level": plan.level,
        "coverage": coverage,
        "assumptions": plan.assumptions,
        "wall_s": wall,
        "violations": new_violations,
    });
    let evdir = std::env::var("VERIF_EVIDENCE_DIR").map(PathBuf::from).unwrap_or_else(|_| verif_dir().join("evidence"));
    let _ = std::fs::create_dir_all(&evdir);
    let evpath = evdir.join(format!("{property}.json"));
    if let Err(e) = std::fs::write(&evpath, serde_json::to_string_pretty(&evidence).unwrap()) {
        eprintln!("cannot write evidence: {e}");
        return 2;
    }
    let _ = std::fs::remove_dir_all(&scratch);
    println!(
        "summary property={property} tier={} runs={evaluations} nontrivial_distinct={} interleavings={} inconclusive={inconclusive} divergences={dup_diverged}/{dup_checked} wall_s={wall:.1} violations={new_violations} known={}",
        tier.as_str(),
        bodies.len(),
        traces.len(),
        known_hits.len()
    );
    if !divergences.is_empty() {
        eprintln!("warning: {} determinism divergences (first script kept in evidence)", dup_diverged);
    }
    // a family most of whose runs could not be judged has explored nothing: passing would be a lie
    let mut unjudged: BTreeMap<String, (u64, u64)> = BTreeMap::new();
    for s in &stats {
        let e = unjudged.entry(s.family.clone()).or_insert((0, 0));
        e.0 += s.evaluations;
        e.1 += s.inconclusive;
    }
    let starved: Vec<String> = unjudged.iter().filter(|(_, (n, i))| *n > 0 && *i * 2 > *n).map(|(f, (n, i))| format!("{f}: {i} of {n} runs inconclusive")).collect();
    if new_violations > 0 {
        1
    } else if !starved.is_empty() {
        eprintln!("harness error: nothing was decided by {starved:?} (see the run logs: `dst run {property} <family> <index>`)");
        2
    } else if evaluations == 0 {
        eprintln!("harness error: nothing executed");
        2
    } else {
        0
    }
}
