//! Scripted byte pipe: every write and read outcome is decided by the script.
use serde::{Deserialize, Serialize};
use std::io;
use std::pin::Pin;
use std::sync::Arc;
use std::task::{Context, Poll, Wake, Waker};
use tokio::io::{AsyncRead, AsyncWrite, ReadBuf};

#[derive(Clone, Copy, Debug, Serialize, Deserialize, PartialEq)]
#[serde(rename_all = "snake_case")]
pub enum WOut {
    /// accept at most this many bytes of the offered buffer (at least one)
    Accept(usize),
    Pending,
}

#[derive(Clone, Copy, Debug, Serialize, Deserialize, PartialEq)]
#[serde(rename_all = "snake_case")]
pub enum ROut {
    Chunk(usize),
    Pending,
}

pub struct PipeWriter {
    pub out: Vec<u8>,
    pub plan: Vec<WOut>,
    pub pos: usize,
    pub short_writes: u64,
    pub pendings: u64,
    pub writes: u64,
}

impl PipeWriter {
    pub fn new(plan: Vec<WOut>) -> Self {
        // a plan that never accepts anything is not a transport, it is a dead peer: not this family's subject
        let dead = plan.iter().all(|w| matches!(w, WOut::Pending));
        PipeWriter { out: vec![], plan: if dead { vec![WOut::Accept(usize::MAX)] } else { plan }, pos: 0, short_writes: 0, pendings: 0, writes: 0 }
    }
}

impl AsyncWrite for PipeWriter {
    fn poll_write(mut self: Pin<&mut Self>, _cx: &mut Context<'_>, buf: &[u8]) -> Poll<io::Result<usize>> {
        let step = self.plan[self.pos % self.plan.len()];
        self.pos += 1;
        match step {
            WOut::Pending => {
                self.pendings += 1;
                Poll::Pending
            }
            WOut::Accept(k) => {
                if buf.is_empty() {
                    return Poll::Ready(Ok(0));
                }
                let n = k.max(1).min(buf.len());
                if n < buf.len() {
                    self.short_writes += 1;
                }
                self.writes += 1;
                self.out.extend_from_slice(&buf[..n]);
                Poll::Ready(Ok(n))
            }
        }
    }
    fn poll_flush(self: Pin<&mut Self>, _cx: &mut Context<'_>) -> Poll<io::Result<()>> {
        Poll::Ready(Ok(()))
    }
    fn poll_shutdown(self: Pin<&mut Self>, _cx: &mut Context<'_>) -> Poll<io::Result<()>> {
        Poll::Ready(Ok(()))
    }
}

pub struct PipeReader {
    pub data: Vec<u8>,
    pub off: usize,
    pub plan: Vec<ROut>,
    pub pos: usize,
    /// offsets at which a read returned (cut positions)
    pub cuts: Vec<usize>,
    pub pendings: u64,
    /// if true, after the data is exhausted reads stay Pending instead of reporting EOF
    pub hold_open: bool,
    pub eof_reported: bool,
    pub max_read_request: usize,
}

impl PipeReader {
    pub fn new(data: Vec<u8>, plan: Vec<ROut>, hold_open: bool) -> Self {
        let dead = plan.iter().all(|r| matches!(r, ROut::Pending));
        PipeReader { data, off: 0, plan: if dead { vec![ROut::Chunk(usize::MAX)] } else { plan }, pos: 0, cuts: vec![], pendings: 0, hold_open, eof_reported: false, max_read_request: 0 }
    }
}

impl AsyncRead for PipeReader {
    fn poll_read(mut self: Pin<&mut Self>, _cx: &mut Context<'_>, buf: &mut ReadBuf<'_>) -> Poll<io::Result<()>> {
        self.max_read_request = self.max_read_request.max(buf.remaining());
        if self.off >= self.data.len() {
            if self.hold_open {
                self.pendings += 1;
                return Poll::Pending;
            }
            self.eof_reported = true;
            return Poll::Ready(Ok(()));
        }
        let step = self.plan[self.pos % self.plan.len()];
        self.pos += 1;
        match step {
            ROut::Pending => {
                self.pendings += 1;
                Poll::Pending
            }
            ROut::Chunk(k) => {
                let n = k.max(1).min(self.data.len() - self.off).min(buf.remaining());
                let off = self.off;
                buf.put_slice(&self.data[off..off + n]);
                self.off += n;
                let o = self.off;
                self.cuts.push(o);
                Poll::Ready(Ok(()))
            }
        }
    }
}

struct Noop;
impl Wake for Noop {
    fn wake(self: Arc<Self>) {}
}

pub fn noop_waker() -> Waker {
    Waker::from(Arc::new(Noop))
}
