//! C06 (W part) — no bytes from the network can crash a decoder: corrupted frame streams into the
//! real `FramedRead<MessageCodec>`, corrupted batch bodies into `decode_message_batch`, corrupted
//! payloads into every standard codec and decompressor, and the subscriber's
//! decompress -> unbatch -> decode chain.
use super::clean::gen_rplan;
use super::pipe::*;
use super::*;
use crate::alloc_guard;
use crate::core::*;
use crate::rng::{Hasher64, Rng};
use bytes::{Bytes, BytesMut};
use futures::Stream;
use selium_protocol::utils::{decode_message_batch, encode_message_batch};
use selium_protocol::MessageCodec;
use selium_std::codecs::{BincodeCodec, BytesCodec, StringCodec};
use selium_std::compression::brotli::{BrotliComp, BrotliDecomp};
use selium_std::compression::deflate::{DeflateComp, DeflateDecomp};
use selium_std::compression::lz4::{Lz4Comp, Lz4Decomp};
use selium_std::compression::zstd::{ZstdComp, ZstdDecomp};
use selium_std::traits::codec::{MessageDecoder, MessageEncoder};
use selium_std::traits::compression::{Compress, Decompress};
use serde_json::Value;
use std::panic::{catch_unwind, AssertUnwindSafe};
use std::pin::Pin;
use std::task::{Context, Poll};
use tokio_util::codec::{Encoder, FramedRead};

#[derive(Clone, Debug, Serialize, Deserialize, PartialEq)]
pub struct Rec {
    pub name: String,
    pub id: u64,
    pub tags: Vec<String>,
    pub blob: Vec<u8>,
    pub opt: Option<u32>,
}

#[derive(Clone, Copy, Debug, Serialize, Deserialize, PartialEq)]
#[serde(rename_all = "snake_case")]
pub enum Algo {
    Gzip,
    Zlib,
    Zstd,
    Lz4,
    Brotli,
}

#[derive(Clone, Debug, Serialize, Deserialize, PartialEq)]
#[serde(rename_all = "snake_case")]
pub enum Target {
    /// a stream of frames into FramedRead<MessageCodec>
    FrameStream { frames: Vec<FrameSpec> },
    /// a batch body into decode_message_batch
    Batch { msgs: Vec<(usize, u64)> },
    StringCodec { size: usize, fill: u64 },
    BytesCodec { size: usize, fill: u64 },
    Bincode { fill: u64 },
    Decompress { algo: Algo, size: usize, fill: u64 },
    /// what a subscriber does with a received (batch) message: decompress, unbatch, decode
    SubscriberChain { algo: Option<Algo>, batched: bool, msgs: Vec<(usize, u64)>, bincode: bool },
}

#[derive(Clone, Debug, Serialize, Deserialize, PartialEq)]
#[serde(rename_all = "snake_case")]
pub enum Mutation {
    BitFlip { at: u64, bit: u8 },
    Truncate { at: u64 },
    Insert { at: u64, n: usize, fill: u64 },
    Delete { at: u64, n: usize },
    /// overwrite 8 bytes at an 8-byte field position with an adversarial big-endian value
    SetU64Be { at: u64, value: u64 },
    SetU64Le { at: u64, value: u64 },
    /// replace everything by random bytes
    Random { n: usize, fill: u64 },
    DupChunk { at: u64, n: usize },
    /// overwrite the head of the payload with a crafted format header (see `HEADS`)
    SetHead { bytes: Vec<u8> },
}

#[derive(Clone, Debug, Serialize, Deserialize)]
pub struct HostileScript {
    pub target: Target,
    pub mutations: Vec<Mutation>,
    pub rplan: Vec<ROut>,
}

fn pos(at: u64, len: usize) -> usize {
    if len == 0 {
        0
    } else {
        (at % (len as u64)) as usize
    }
}

pub fn apply(mut data: Vec<u8>, muts: &[Mutation]) -> Vec<u8> {
    for m in muts {
        match m {
            Mutation::BitFlip { at, bit } => {
                if !data.is_empty() {
                    let p = pos(*at, data.len());
                    data[p] ^= 1 << (bit % 8);
                }
            }
            Mutation::Truncate { at } => {
                let p = pos(*at, data.len() + 1);
                data.truncate(p);
            }
            Mutation::Insert { at, n, fill } => {
                let p = pos(*at, data.len() + 1);
                let ins = Rng::new(*fill).bytes(*n);
                data.splice(p..p, ins);
            }
            Mutation::Delete { at, n } => {
                if !data.is_empty() {
                    let p = pos(*at, data.len());
                    let e = (p + n).min(data.len());
                    data.drain(p..e);
                }
            }
            Mutation::SetU64Be { at, value } => {
                if data.len() >= 8 {
                    let p = pos(*at, data.len() - 7);
                    data[p..p + 8].copy_from_slice(&value.to_be_bytes());
                }
            }
            Mutation::SetU64Le { at, value } => {
                if data.len() >= 8 {
                    let p = pos(*at, data.len() - 7);
                    data[p..p + 8].copy_from_slice(&value.to_le_bytes());
                }
            }
            Mutation::Random { n, fill } => data = Rng::new(*fill).bytes(*n),
            Mutation::SetHead { bytes } => {
                if data.len() < bytes.len() {
                    data.resize(bytes.len(), 0);
                }
                data[..bytes.len()].copy_from_slice(bytes);
            }
            Mutation::DupChunk { at, n } => {
                if !data.is_empty() {
                    let p = pos(*at, data.len());
                    let e = (p + n).min(data.len());
                    let chunk = data[p..e].to_vec();
                    data.splice(e..e, chunk);
                }
            }
        }
    }
    data
}

const ADVERSARIAL: &[u64] = &[0, 1, 2, 255, 256, 65_535, 1 << 20, (1 << 20) + 1, 1 << 24, 1 << 31, 1 << 32, 1 << 40, 1 << 62, 1 << 63, u64::MAX, u64::MAX - 7];

/// Format-aware stream heads: the places where a compression format announces how much memory the decoder
/// should set aside before any data is read. `0xA5` bytes are replaced by random bytes.
const HEADS: &[&[u8]] = &[
    // brotli: WBITS encodings, including the 0x11 "large window" marker followed by its window size
    &[0x11, 0xA5],
    &[0x11, 0x1e],
    &[0x11, 0x3e, 0xA5, 0xA5],
    &[0x0f, 0xA5],
    &[0x81, 0xA5],
    &[0x21, 0xA5],
    // zstd: magic, frame header descriptor, window descriptor / frame content size
    &[0x28, 0xb5, 0x2f, 0xfd, 0x00, 0xff],
    &[0x28, 0xb5, 0x2f, 0xfd, 0xA5, 0xA5],
    &[0x28, 0xb5, 0x2f, 0xfd, 0xe0, 0xff, 0xff, 0xff, 0xff, 0xff, 0xff, 0xff, 0xff],
    &[0x28, 0xb5, 0x2f, 0xfd, 0xc0, 0xf8, 0xff, 0xff, 0xff, 0xff, 0xff, 0xff, 0xff, 0xff],
    // zstd skippable frame with a huge length
    &[0x50, 0x2a, 0x4d, 0x18, 0xff, 0xff, 0xff, 0xff],
    // lz4 frame: magic, FLG (content size present), BD (max block 4 MiB), content size
    &[0x04, 0x22, 0x4d, 0x18, 0x6c, 0x70, 0xff, 0xff, 0xff, 0xff, 0xff, 0xff, 0xff, 0x7f],
    &[0x04, 0x22, 0x4d, 0x18, 0xA5, 0xA5, 0xA5],
    // lz4 legacy frame / skippable frame
    &[0x02, 0x21, 0x4c, 0x18, 0xff, 0xff, 0xff, 0x7f],
    &[0x50, 0x2a, 0x4d, 0x18, 0xff, 0xff, 0xff, 0x7f],
    // gzip: magic, deflate, flags (FEXTRA / FNAME / FCOMMENT / FHCRC)
    &[0x1f, 0x8b, 0x08, 0xA5],
    &[0x1f, 0x8b, 0x08, 0x04, 0, 0, 0, 0, 0, 0, 0xff, 0xff],
    // zlib: CMF/FLG with a preset dictionary, maximal window
    &[0x78, 0xbb, 0xA5, 0xA5, 0xA5, 0xA5],
    &[0x78, 0x9c, 0xA5],
];

pub fn gen_head(rng: &mut Rng) -> Vec<u8> {
    let h = *rng.pick(HEADS);
    h.iter().map(|b| if *b == 0xA5 { rng.below(256) as u8 } else { *b }).collect()
}

fn gen_mutations(rng: &mut Rng, field_biased: bool) -> Vec<Mutation> {
    let n = *rng.pick(&[0usize, 1, 1, 1, 2, 2, 3, 5]);
    (0..n)
        .map(|_| match rng.below(if field_biased { 13 } else { 9 }) {
            12 => Mutation::SetHead { bytes: gen_head(rng) },
            0 | 1 => Mutation::BitFlip { at: rng.next(), bit: rng.below(8) as u8 },
            2 => Mutation::Truncate { at: rng.next() },
            3 => Mutation::Insert { at: rng.next(), n: rng.usize(1, 16), fill: rng.next() },
            4 => Mutation::Delete { at: rng.next(), n: rng.usize(1, 16) },
            5 => Mutation::DupChunk { at: rng.next(), n: rng.usize(1, 64) },
            6 => Mutation::Random { n: *rng.pick(&[0usize, 1, 7, 8, 9, 15, 16, 17, 64, 1000]), fill: rng.next() },
            // adversarial length fields: low offsets are where the count / first length live
            7 | 9 | 10 => Mutation::SetU64Be { at: if rng.chance(2, 3) { *rng.pick(&[0u64, 8, 9, 16, 17, 24]) } else { rng.next() }, value: *rng.pick(ADVERSARIAL) },
            _ => Mutation::SetU64Le { at: if rng.chance(2, 3) { *rng.pick(&[0u64, 8, 9, 16, 17, 24, 32]) } else { rng.next() }, value: *rng.pick(ADVERSARIAL) },
        })
        .collect()
}

fn gen_algo(rng: &mut Rng) -> Algo {
    *rng.pick(&[Algo::Gzip, Algo::Zlib, Algo::Zstd, Algo::Lz4, Algo::Brotli])
}

pub fn gen_script(rng: &mut Rng) -> HostileScript {
    let small = |rng: &mut Rng| *rng.pick(&[0usize, 1, 2, 8, 9, 31, 100, 1000, 5000]);
    let target = match rng.below(10) {
        0 | 1 | 2 => Target::FrameStream { frames: (0..rng.usize(1, 5)).map(|_| gen_frame(rng, false)).collect() },
        3 | 4 => Target::Batch { msgs: (0..*rng.pick(&[0usize, 1, 2, 3, 10])).map(|_| (small(rng).min(200), rng.next())).collect() },
        5 => {
            if rng.chance(1, 2) {
                Target::StringCodec { size: small(rng), fill: rng.next() }
            } else {
                Target::BytesCodec { size: small(rng), fill: rng.next() }
            }
        }
        6 => Target::Bincode { fill: rng.next() },
        7 => Target::Decompress { algo: gen_algo(rng), size: small(rng), fill: rng.next() },
        _ => Target::SubscriberChain {
            algo: if rng.chance(1, 2) { Some(gen_algo(rng)) } else { None },
            batched: rng.chance(2, 3),
            msgs: (0..rng.usize(1, 4)).map(|_| (small(rng).min(300), rng.next())).collect(),
            bincode: rng.chance(1, 2),
        },
    };
    let mut mutations = gen_mutations(rng, true);
    let compressed = matches!(&target, Target::Decompress { .. } | Target::SubscriberChain { algo: Some(_), .. });
    if compressed && rng.chance(1, 4) {
        let at = rng.usize(0, mutations.len());
        mutations.insert(at, Mutation::SetHead { bytes: gen_head(rng) });
    }
    HostileScript { target, mutations, rplan: gen_rplan(rng) }
}

fn compressor(algo: Algo) -> Box<dyn Compress> {
    match algo {
        Algo::Gzip => Box::new(DeflateComp::gzip()),
        Algo::Zlib => Box::new(DeflateComp::zlib()),
        Algo::Zstd => Box::new(ZstdComp::new()),
        Algo::Lz4 => Box::new(Lz4Comp),
        Algo::Brotli => Box::new(BrotliComp::generic()),
    }
}

fn decompressor(algo: Algo) -> Box<dyn Decompress> {
    match algo {
        Algo::Gzip => Box::new(DeflateDecomp::gzip()),
        Algo::Zlib => Box::new(DeflateDecomp::zlib()),
        Algo::Zstd => Box::new(ZstdDecomp),
        Algo::Lz4 => Box::new(Lz4Decomp),
        Algo::Brotli => Box::new(BrotliDecomp),
    }
}

fn rec_from(fill: u64) -> Rec {
    let mut r = Rng::new(fill);
    Rec {
        name: gen_string(&mut r, 10),
        id: r.next(),
        tags: (0..r.usize(0, 3)).map(|_| gen_string(&mut r, 5)).collect(),
        blob: {
            let n = r.usize(0, 40);
            r.bytes(n)
        },
        opt: if r.chance(1, 2) { Some(r.next() as u32) } else { None },
    }
}

fn text_payload(size: usize, fill: u64) -> Vec<u8> {
    let mut r = Rng::new(fill);
    let mut s = String::new();
    while s.len() < size {
        s.push_str(*r.pick(&["a", "bc", "é", "中", " ", "xyz"]));
    }
    s.into_bytes()
}

thread_local! {
    /// hands a stage's output out of the unwind-safe closure
    static STAGE: std::cell::RefCell<Vec<Bytes>> = const { std::cell::RefCell::new(vec![]) };
}

/// One guarded decoding step: runs `f`, converts a panic into a violation, checks the allocation guard.
fn guarded<F: FnOnce() -> String>(out: &mut Outcome, prop: &str, name: &str, input_len: usize, f: F) -> Option<String> {
    let threshold = (256usize << 20) + 16 * input_len;
    alloc_guard::arm(threshold);
    let r = catch_unwind(AssertUnwindSafe(f));
    let biggest = alloc_guard::disarm();
    if biggest > threshold {
        out.violate(prop, "oversized-allocation", name, format!("{name}: a single allocation of {biggest} bytes was requested while decoding {input_len} input bytes"));
    }
    match r {
        Ok(s) => Some(s),
        Err(_) => {
            let all = crate::panics::take_all();
            let (loc, msg) = all.into_iter().next().unwrap_or(("unknown".into(), "unknown".into()));
            out.violate(prop, "decoder-panic", &format!("{name}:panic@{loc}"), format!("{name} panicked at {loc} on {input_len} input bytes: {msg}"));
            None
        }
    }
}

pub fn execute(prop: &str, sc: &HostileScript, opts: &ExecOpts) -> Outcome {
    let mut out = Outcome::default();
    let mut th = Hasher64::default();
    let corrupted = !sc.mutations.is_empty();
    for m in &sc.mutations {
        let k = match m {
            Mutation::BitFlip { .. } => "bit_flip",
            Mutation::Truncate { .. } => "truncation",
            Mutation::Insert { .. } => "byte_insertion",
            Mutation::Delete { .. } => "byte_deletion",
            Mutation::SetU64Be { .. } | Mutation::SetU64Le { .. } => "adversarial_length_field",
            Mutation::Random { .. } => "random_bytes",
            Mutation::DupChunk { .. } => "chunk_duplication",
            Mutation::SetHead { .. } => "crafted_format_header",
        };
        out.fault(k);
    }
    match &sc.target {
        Target::FrameStream { frames } => {
            let mut wire = vec![];
            for spec in frames {
                let mut buf = BytesMut::new();
                if MessageCodec.encode(spec.build(), &mut buf).is_ok() {
                    wire.extend_from_slice(&buf);
                }
            }
            let data = apply(wire, &sc.mutations);
            let n = data.len();
            let rplan = sc.rplan.clone();
            let res = guarded(&mut out, prop, "frame-decoder", n, move || {
                let waker = noop_waker();
                let mut cx = Context::from_waker(&waker);
                let mut fr = FramedRead::new(PipeReader::new(data, rplan, false), MessageCodec);
                let mut desc = String::new();
                let mut pend = 0;
                loop {
                    match Pin::new(&mut fr).poll_next(&mut cx) {
                        Poll::Ready(Some(Ok(f))) => desc.push_str(&format!("ok{};", f.get_type())),
                        Poll::Ready(Some(Err(_))) => {
                            desc.push_str("err;");
                            break;
                        }
                        Poll::Ready(None) => {
                            desc.push_str("eof");
                            break;
                        }
                        Poll::Pending => {
                            pend += 1;
                            if pend > 1_000_000 {
                                desc.push_str("stuck");
                                break;
                            }
                        }
                    }
                }
                desc
            });
            if let Some(d) = res {
                th.bytes(d.as_bytes());
                if d.ends_with("stuck") {
                    out.violate(prop, "decoder-stuck", "frame-decoder", "FramedRead neither finished nor failed on a finite input".into());
                }
            }
            out.probe("target_frame_stream");
        }
        Target::Batch { msgs } => {
            let body = encode_message_batch(msgs.iter().map(|(s, f)| fill_bytes(*s, *f)).collect());
            let data = apply(body.to_vec(), &sc.mutations);
            let n = data.len();
            let res = guarded(&mut out, prop, "decode_message_batch", n, move || {
                match decode_message_batch(Bytes::from(data)).into_batch() {
                    Ok(v) => format!("{} msgs", v.len()),
                    Err(_) => "err".into(),
                }
            });
            if let Some(d) = res {
                if !corrupted && d != format!("{} msgs", msgs.len()) {
                    out.violate(prop, "valid-input-rejected", "decode_message_batch", format!("uncorrupted batch of {} messages gave {d}", msgs.len()));
                }
                th.bytes(d.as_bytes());
            }
            out.probe("target_batch");
        }
        Target::StringCodec { size, fill } => {
            let data = apply(text_payload(*size, *fill), &sc.mutations);
            let n = data.len();
            let valid = std::str::from_utf8(&data).is_ok();
            let copy = data.clone();
            let res = guarded(&mut out, prop, "StringCodec::decode", n, move || {
                let mut b = BytesMut::from(&data[..]);
                match StringCodec.decode(&mut b) {
                    Ok(s) => format!("ok:{}", s.len()),
                    Err(_) => "err".into(),
                }
            });
            if let Some(d) = res {
                // invalid UTF-8 must be an error, valid UTF-8 must come back unchanged
                if !valid && d.starts_with("ok") {
                    out.violate(prop, "invalid-input-accepted", "StringCodec::decode", "invalid UTF-8 decoded to a value".into());
                }
                if valid && d != format!("ok:{}", String::from_utf8(copy).unwrap().len()) {
                    out.violate(prop, "valid-input-rejected", "StringCodec::decode", "valid UTF-8 was not decoded unchanged".into());
                }
                th.bytes(d.as_bytes());
            }
            out.probe("target_string_codec");
        }
        Target::BytesCodec { size, fill } => {
            let data = apply(fill_bytes(*size, *fill).to_vec(), &sc.mutations);
            let n = data.len();
            let res = guarded(&mut out, prop, "BytesCodec::decode", n, move || {
                let mut b = BytesMut::from(&data[..]);
                match BytesCodec.decode(&mut b) {
                    Ok(v) => {
                        if v != data {
                            "mismatch".into()
                        } else {
                            format!("ok:{}", v.len())
                        }
                    }
                    Err(_) => "err".into(),
                }
            });
            if let Some(d) = res {
                if d == "mismatch" {
                    out.violate(prop, "wrong-value", "BytesCodec::decode", "bytes codec returned different bytes".into());
                }
                th.bytes(d.as_bytes());
            }
            out.probe("target_bytes_codec");
        }
        Target::Bincode { fill } => {
            let rec = rec_from(*fill);
            let enc = BincodeCodec::<Rec>::default().encode(rec.clone()).map(|b| b.to_vec()).unwrap_or_default();
            let data = apply(enc, &sc.mutations);
            let n = data.len();
            let res = guarded(&mut out, prop, "BincodeCodec::decode", n, move || {
                let mut b = BytesMut::from(&data[..]);
                match BincodeCodec::<Rec>::default().decode(&mut b) {
                    Ok(r) => format!("ok:{}", r.name.len() + r.blob.len()),
                    Err(_) => "err".into(),
                }
            });
            if let Some(d) = res {
                if !corrupted && !d.starts_with("ok") {
                    out.violate(prop, "valid-input-rejected", "BincodeCodec::decode", "uncorrupted encoding failed to decode".into());
                }
                th.bytes(d.as_bytes());
            }
            out.probe("target_bincode_codec");
        }
        Target::Decompress { algo, size, fill } => {
            let orig = fill_bytes(*size, *fill);
            let comp = compressor(*algo).compress(orig.clone()).map(|b| b.to_vec()).unwrap_or_default();
            let data = apply(comp, &sc.mutations);
            let n = data.len();
            let a = *algo;
            let res = guarded(&mut out, prop, &format!("{a:?}::decompress").to_lowercase(), n, move || match decompressor(a).decompress(Bytes::from(data)) {
                Ok(b) => format!("ok:{}:{}", b.len(), crate::rng::fnv(&String::from_utf8_lossy(&b))),
                Err(_) => "err".into(),
            });
            if let Some(d) = res {
                if !corrupted && d != format!("ok:{}:{}", orig.len(), crate::rng::fnv(&String::from_utf8_lossy(&orig))) {
                    out.violate(prop, "valid-input-rejected", &format!("{a:?}::decompress").to_lowercase(), "uncorrupted compressed data did not decompress to the original".into());
                }
                th.bytes(d.as_bytes());
            }
            out.probe(&format!("target_decompress_{a:?}").to_lowercase());
        }
        Target::SubscriberChain { algo, batched, msgs, bincode } => {
            // build what a publisher would put into a frame
            let items: Vec<Bytes> = msgs
                .iter()
                .map(|(s, f)| {
                    if *bincode {
                        BincodeCodec::<Rec>::default().encode(rec_from(*f)).unwrap_or_default()
                    } else {
                        Bytes::from(text_payload(*s, *f))
                    }
                })
                .collect();
            let mut body = if *batched { encode_message_batch(items.clone()) } else { items.first().cloned().unwrap_or_default() };
            if let Some(a) = algo {
                body = compressor(*a).compress(body).unwrap_or_default();
            }
            let data = apply(body.to_vec(), &sc.mutations);
            let n = data.len();
            let (a, batched, bincode) = (*algo, *batched, *bincode);
            // every stage is guarded on its own, so that a finding names the stage that misbehaved
            let res = (|| {
                let mut bytes = Bytes::from(data);
                if let Some(a) = a {
                    let input = bytes.clone();
                    let name = format!("{a:?}::decompress").to_lowercase();
                    let r = guarded(&mut out, prop, &name, n, move || match decompressor(a).decompress(input) {
                        Ok(b) => {
                            STAGE.with(|s| *s.borrow_mut() = vec![b]);
                            "ok".into()
                        }
                        Err(_) => "decompress-err".into(),
                    })?;
                    if r != "ok" {
                        return Some(r);
                    }
                    bytes = STAGE.with(|s| s.borrow_mut().pop()).unwrap_or_default();
                }
                let parts = if batched {
                    let input = bytes.clone();
                    let r = guarded(&mut out, prop, "decode_message_batch", n, move || match decode_message_batch(input).into_batch() {
                        Ok(p) => {
                            STAGE.with(|s| *s.borrow_mut() = p);
                            "ok".into()
                        }
                        Err(_) => "unbatch-err".into(),
                    })?;
                    if r != "ok" {
                        return Some(r);
                    }
                    STAGE.with(|s| std::mem::take(&mut *s.borrow_mut()))
                } else {
                    vec![bytes]
                };
                let mut d = format!("{} parts;", parts.len());
                let codec = if bincode { "BincodeCodec::decode" } else { "StringCodec::decode" };
                for p in parts {
                    let len = p.len();
                    let r = guarded(&mut out, prop, codec, len.max(n), move || {
                        let mut b = BytesMut::with_capacity(p.len());
                        b.extend_from_slice(&p);
                        let ok = if bincode { BincodeCodec::<Rec>::default().decode(&mut b).is_ok() } else { StringCodec.decode(&mut b).is_ok() };
                        (if ok { "ok;" } else { "err;" }).into()
                    })?;
                    d.push_str(&r);
                }
                Some(d)
            })();
            if let Some(d) = res {
                if !corrupted && (d.contains("err") || !d.starts_with(&format!("{} parts", if batched { items.len() } else { 1 }))) {
                    out.violate(prop, "valid-input-rejected", "subscriber-chain", format!("uncorrupted publisher output failed the subscriber chain: {d}"));
                }
                th.bytes(d.as_bytes());
            }
            out.probe("target_subscriber_chain");
        }
    }
    out.nontrivial = corrupted;
    out.steps = sc.mutations.len() as u64;
    out.trace_hash = th.finish();
    out.full_hash = th.finish();
    if opts.want_log {
        out.log.push(format!("target {:?}", sc.target));
        out.log.push(format!("mutations {:?}", sc.mutations));
    }
    out
}

pub struct WireHostile;
pub static WIRE_HOSTILE: WireHostile = WireHostile;

impl Family for WireHostile {
    fn name(&self) -> &'static str {
        "wire-hostile"
    }
    fn engine(&self) -> &'static str {
        "W"
    }
    fn generate(&self, _p: &str, _t: Tier, _i: u64, _n: u64, rng: &mut Rng) -> Value {
        serde_json::to_value(gen_script(rng)).unwrap()
    }
    fn execute(&self, property: &str, body: &Value, opts: &ExecOpts) -> Outcome {
        match serde_json::from_value::<HostileScript>(body.clone()) {
            Ok(sc) => execute(property, &sc, opts),
            Err(e) => {
                let mut o = Outcome::default();
                o.inconclusive = true;
                o.log.push(format!("bad script: {e}"));
                o
            }
        }
    }
    fn shrink(&self, body: &Value) -> Vec<Value> {
        let Ok(sc) = serde_json::from_value::<HostileScript>(body.clone()) else { return vec![] };
        let mut out = vec![];
        for i in 0..sc.mutations.len() {
            let mut c = sc.clone();
            c.mutations.remove(i);
            out.push(c);
        }
        if sc.rplan.len() > 1 {
            let mut c = sc.clone();
            c.rplan = vec![ROut::Chunk(usize::MAX)];
            out.push(c);
        }
        match &sc.target {
            Target::FrameStream { frames } if frames.len() > 1 => {
                for i in 0..frames.len() {
                    let mut c = sc.clone();
                    if let Target::FrameStream { frames } = &mut c.target {
                        frames.remove(i);
                    }
                    out.push(c);
                }
            }
            Target::Batch { msgs } if !msgs.is_empty() => {
                for i in 0..msgs.len() {
                    let mut c = sc.clone();
                    if let Target::Batch { msgs } = &mut c.target {
                        msgs.remove(i);
                    }
                    out.push(c);
                }
            }
            Target::SubscriberChain { algo, batched, msgs, bincode } => {
                if algo.is_some() {
                    let mut c = sc.clone();
                    c.target = Target::SubscriberChain { algo: None, batched: *batched, msgs: msgs.clone(), bincode: *bincode };
                    out.push(c);
                }
                if msgs.len() > 1 {
                    let mut c = sc.clone();
                    c.target = Target::SubscriberChain { algo: *algo, batched: *batched, msgs: msgs[..1].to_vec(), bincode: *bincode };
                    out.push(c);
                }
            }
            _ => {}
        }
        out.into_iter().map(|s| serde_json::to_value(s).unwrap()).collect()
    }
    fn watchdog_ms(&self) -> u64 {
        30_000
    }
}
