//! W — wire-sim: the real `MessageCodec` under the real `tokio_util::codec::{FramedRead,
//! FramedWrite}` adapters (the very adapters `BiStream` wraps around QUIC streams) over a scripted
//! byte pipe: short writes, pending, arbitrary read chunking, EOF mid-frame, corruption.

pub mod clean;
pub mod hostile;
pub mod pipe;

use crate::rng::Rng;
use bytes::Bytes;
use selium_protocol::utils::encode_message_batch;
use selium_protocol::{ErrorPayload, Frame, MessagePayload, Operation, PublisherPayload, ReplierPayload, RequestorPayload, SubscriberPayload, TopicName};
use serde::{Deserialize, Serialize};
use std::collections::HashMap;

pub const MAX: usize = 1024 * 1024;

#[derive(Clone, Debug, Serialize, Deserialize, PartialEq)]
#[serde(rename_all = "snake_case")]
pub enum FrameSpec {
    RegPub { ns: String, topic: String, retention: u64, ops: Vec<(bool, String)> },
    RegSub { ns: String, topic: String, retention: u64, ops: Vec<(bool, String)> },
    RegRep { ns: String, topic: String },
    RegReq { ns: String, topic: String },
    Msg { headers: Option<Vec<(String, String)>>, size: usize, fill: u64 },
    /// body built by the real `encode_message_batch` from these (size, fill) messages
    Batch { msgs: Vec<(usize, u64)> },
    BatchRaw { size: usize, fill: u64 },
    Error { code: u32, size: usize, fill: u64 },
    Ok,
}

pub fn fill_bytes(size: usize, fill: u64) -> Bytes {
    if fill % 4 == 0 {
        // repetitive
        Bytes::from(vec![(fill >> 8) as u8; size])
    } else {
        Bytes::from(Rng::new(fill).bytes(size))
    }
}

fn ops_of(ops: &[(bool, String)]) -> Vec<Operation> {
    ops.iter().map(|(m, s)| if *m { Operation::Map(s.clone()) } else { Operation::Filter(s.clone()) }).collect()
}

impl FrameSpec {
    pub fn build(&self) -> Frame {
        match self {
            FrameSpec::RegPub { ns, topic, retention, ops } => Frame::RegisterPublisher(PublisherPayload { topic: TopicName::_create_unchecked(ns, topic), retention_policy: *retention, operations: ops_of(ops) }),
            FrameSpec::RegSub { ns, topic, retention, ops } => Frame::RegisterSubscriber(SubscriberPayload { topic: TopicName::_create_unchecked(ns, topic), retention_policy: *retention, operations: ops_of(ops) }),
            FrameSpec::RegRep { ns, topic } => Frame::RegisterReplier(ReplierPayload { topic: TopicName::_create_unchecked(ns, topic) }),
            FrameSpec::RegReq { ns, topic } => Frame::RegisterRequestor(RequestorPayload { topic: TopicName::_create_unchecked(ns, topic) }),
            FrameSpec::Msg { headers, size, fill } => Frame::Message(MessagePayload {
                headers: headers.as_ref().map(|h| h.iter().cloned().collect::<HashMap<String, String>>()),
                message: fill_bytes(*size, *fill),
            }),
            FrameSpec::Batch { msgs } => Frame::BatchMessage(encode_message_batch(msgs.iter().map(|(s, f)| fill_bytes(*s, *f)).collect())),
            FrameSpec::BatchRaw { size, fill } => Frame::BatchMessage(fill_bytes(*size, *fill)),
            FrameSpec::Error { code, size, fill } => Frame::Error(ErrorPayload { code: *code, message: fill_bytes(*size, *fill) }),
            FrameSpec::Ok => Frame::Ok,
        }
    }
    pub fn batch_messages(&self) -> Option<Vec<Bytes>> {
        match self {
            FrameSpec::Batch { msgs } => Some(msgs.iter().map(|(s, f)| fill_bytes(*s, *f)).collect()),
            _ => None,
        }
    }
}

const ALPHABET: &[&str] = &["a", "Z", "0", "_", "-", "/", " ", "é", "ß", "中", "🦀", "\u{0}", "\n", "selium", "x"];

pub fn gen_string(rng: &mut Rng, max_parts: usize) -> String {
    let n = rng.usize(0, max_parts);
    let mut s = String::new();
    for _ in 0..n {
        s.push_str(*rng.pick(ALPHABET));
    }
    s
}

fn gen_name(rng: &mut Rng) -> (String, String) {
    if rng.chance(1, 2) {
        ("namespace".into(), format!("topic{}", rng.below(100)))
    } else {
        (gen_string(rng, 12), gen_string(rng, 12))
    }
}

fn gen_ops(rng: &mut Rng) -> Vec<(bool, String)> {
    (0..rng.usize(0, 4)).map(|_| (rng.chance(1, 2), gen_string(rng, 8))).collect()
}

/// size classes: mostly small; rarely around the frame limit
pub fn gen_size(rng: &mut Rng, allow_large: bool) -> usize {
    match rng.below(100) {
        0..=9 => 0,
        10..=19 => 1,
        20..=69 => rng.usize(2, 64),
        70..=94 => rng.usize(65, 4096),
        95..=98 => rng.usize(4097, 70_000),
        _ => {
            if allow_large {
                *rng.pick(&[MAX - 64, MAX - 20, MAX - 9, MAX / 2])
            } else {
                rng.usize(4097, 70_000)
            }
        }
    }
}

pub fn gen_frame(rng: &mut Rng, allow_large: bool) -> FrameSpec {
    match rng.below(9) {
        0 => {
            let (ns, topic) = gen_name(rng);
            FrameSpec::RegPub { ns, topic, retention: rng.next() >> rng.below(64), ops: gen_ops(rng) }
        }
        1 => {
            let (ns, topic) = gen_name(rng);
            FrameSpec::RegSub { ns, topic, retention: rng.next() >> rng.below(64), ops: gen_ops(rng) }
        }
        2 => {
            let (ns, topic) = gen_name(rng);
            FrameSpec::RegRep { ns, topic }
        }
        3 => {
            let (ns, topic) = gen_name(rng);
            FrameSpec::RegReq { ns, topic }
        }
        4 | 5 => {
            let headers = if rng.chance(1, 2) {
                None
            } else {
                let n = rng.usize(0, 8);
                let mut v: Vec<(String, String)> = vec![];
                for i in 0..n {
                    // unique keys (a map), arbitrary unicode
                    v.push((format!("{}{}", gen_string(rng, 4), i), gen_string(rng, 6)));
                }
                Some(v)
            };
            FrameSpec::Msg { headers, size: gen_size(rng, allow_large), fill: rng.next() }
        }
        6 => {
            let n = *rng.pick(&[0usize, 1, 2, 3, 5, 10, 50]);
            FrameSpec::Batch { msgs: (0..n).map(|_| (gen_size(rng, false).min(2000), rng.next())).collect() }
        }
        7 => FrameSpec::Error { code: rng.next() as u32, size: gen_size(rng, false), fill: rng.next() },
        _ => {
            if rng.chance(1, 3) {
                FrameSpec::BatchRaw { size: gen_size(rng, allow_large), fill: rng.next() }
            } else {
                FrameSpec::Ok
            }
        }
    }
}

/// `decode_message_batch` has been seen with two signatures (plain `Vec<Bytes>` and a `Result`);
/// the harness builds against either.
pub trait IntoBatch {
    fn into_batch(self) -> Result<Vec<Bytes>, String>;
}
impl IntoBatch for Vec<Bytes> {
    fn into_batch(self) -> Result<Vec<Bytes>, String> {
        Ok(self)
    }
}
impl<E: std::fmt::Debug> IntoBatch for Result<Vec<Bytes>, E> {
    fn into_batch(self) -> Result<Vec<Bytes>, String> {
        self.map_err(|e| format!("{e:?}"))
    }
}
