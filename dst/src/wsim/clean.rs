//! C05 — frames round-trip through the real framing adapters however the byte stream is cut, the
//! length prefix equals the payload length, the 1 MiB limit is enforced on both sides, batches
//! round-trip.
use super::pipe::*;
use super::*;
use crate::core::*;
use crate::rng::{Hasher64, Rng};
use bytes::BytesMut;
use futures::{Sink, Stream};
use selium_protocol::utils::decode_message_batch;
use selium_protocol::MessageCodec;
use serde_json::Value;
use std::panic::{catch_unwind, AssertUnwindSafe};
use std::pin::Pin;
use std::task::{Context, Poll};
use tokio_util::codec::{Encoder, FramedRead, FramedWrite};

#[derive(Clone, Debug, Serialize, Deserialize)]
pub struct CleanScript {
    pub frames: Vec<FrameSpec>,
    pub wplan: Vec<WOut>,
    pub rplan: Vec<ROut>,
    /// an oversize header (announced length, type byte) appended after the valid frames in a second stream
    pub oversize_decode: Option<(u64, u8)>,
}

/// Payload length computed independently of the code under test (bincode fixed-int layout).
pub fn reference_length(spec: &FrameSpec) -> u64 {
    fn s(x: &str) -> u64 {
        8 + x.len() as u64
    }
    match spec {
        FrameSpec::RegPub { ns, topic, ops, .. } | FrameSpec::RegSub { ns, topic, ops, .. } => s(ns) + s(topic) + 8 + 8 + ops.iter().map(|(_, o)| 4 + s(o)).sum::<u64>(),
        FrameSpec::RegRep { ns, topic } | FrameSpec::RegReq { ns, topic } => s(ns) + s(topic),
        FrameSpec::Msg { headers, size, .. } => 1 + headers.as_ref().map(|h| 8 + h.iter().map(|(k, v)| s(k) + s(v)).sum::<u64>()).unwrap_or(0) + 8 + *size as u64,
        FrameSpec::Batch { msgs } => 8 + msgs.iter().map(|(sz, _)| 8 + *sz as u64).sum::<u64>(),
        FrameSpec::BatchRaw { size, .. } => *size as u64,
        FrameSpec::Error { size, .. } => 4 + 8 + *size as u64,
        FrameSpec::Ok => 0,
    }
}

pub fn reference_type(spec: &FrameSpec) -> u8 {
    match spec {
        FrameSpec::RegPub { .. } => 0,
        FrameSpec::RegSub { .. } => 1,
        FrameSpec::RegRep { .. } => 2,
        FrameSpec::RegReq { .. } => 3,
        FrameSpec::Msg { .. } => 4,
        FrameSpec::Batch { .. } | FrameSpec::BatchRaw { .. } => 5,
        FrameSpec::Error { .. } => 6,
        FrameSpec::Ok => 7,
    }
}

fn gen_wplan(rng: &mut Rng) -> Vec<WOut> {
    match rng.below(4) {
        0 => vec![WOut::Accept(usize::MAX)],
        1 => vec![WOut::Accept(1)],
        _ => (0..rng.usize(1, 12))
            .map(|_| if rng.chance(1, 5) { WOut::Pending } else { WOut::Accept(*rng.pick(&[1usize, 2, 3, 7, 8, 9, 10, 64, 1000, 8192, 100_000])) })
            .collect(),
    }
}

pub fn gen_rplan(rng: &mut Rng) -> Vec<ROut> {
    match rng.below(5) {
        0 => vec![ROut::Chunk(usize::MAX)],
        1 => vec![ROut::Chunk(1)],
        _ => (0..rng.usize(1, 16))
            .map(|_| if rng.chance(1, 6) { ROut::Pending } else { ROut::Chunk(*rng.pick(&[1usize, 1, 2, 3, 4, 5, 7, 8, 9, 10, 11, 17, 64, 500, 4096, 70_000, 2_000_000])) })
            .collect(),
    }
}

pub fn gen_script(rng: &mut Rng) -> CleanScript {
    let large = rng.chance(1, 100);
    let n = rng.usize(1, 12);
    let mut frames: Vec<FrameSpec> = (0..n).map(|_| gen_frame(rng, large)).collect();
    // oversize payloads for the encoder (rare: they cost a megabyte each)
    if rng.chance(1, 60) {
        let extra = *rng.pick(&[1usize, 2, 9, 1000]);
        let at = rng.usize(0, frames.len());
        let spec = match rng.below(3) {
            0 => FrameSpec::Msg { headers: None, size: MAX - 9 + extra, fill: 4 },
            1 => FrameSpec::BatchRaw { size: MAX + extra, fill: 8 },
            _ => FrameSpec::Error { code: 1, size: MAX - 12 + extra, fill: 12 },
        };
        frames.insert(at, spec);
    }
    // frames exactly at the limit
    if rng.chance(1, 80) {
        let at = rng.usize(0, frames.len());
        let spec = match rng.below(3) {
            0 => FrameSpec::Msg { headers: None, size: MAX - 9, fill: 16 },
            1 => FrameSpec::BatchRaw { size: MAX, fill: 20 },
            _ => FrameSpec::Error { code: 1, size: MAX - 12, fill: 24 },
        };
        frames.insert(at, spec);
    }
    let oversize_decode = if rng.chance(1, 4) {
        Some((*rng.pick(&[MAX as u64 + 1, MAX as u64 + 2, 1 << 32, 1 << 40, 1 << 63, u64::MAX]), rng.below(9) as u8))
    } else {
        None
    };
    CleanScript { frames, wplan: gen_wplan(rng), rplan: gen_rplan(rng), oversize_decode }
}

pub fn execute(prop: &str, sc: &CleanScript, opts: &ExecOpts) -> Outcome {
    let mut out = Outcome::default();
    let waker = noop_waker();
    let mut cx = Context::from_waker(&waker);
    let r = catch_unwind(AssertUnwindSafe(|| {
        // ---- reference encodings, length prefix, limit on encode ----
        let mut expected: Vec<Frame> = vec![];
        let mut expected_specs: Vec<&FrameSpec> = vec![];
        let mut reference_wire: Vec<u8> = vec![];
        let mut boundaries: Vec<usize> = vec![0];
        // every frame of the script in order, legal or not: the refused ones go through the same
        // FramedWrite and must leave no trace on the wire
        let mut offered: Vec<(Frame, bool)> = vec![];
        for spec in &sc.frames {
            let l = reference_length(spec);
            let frame = spec.build();
            let mut buf = BytesMut::new();
            let r = MessageCodec.encode(frame.clone(), &mut buf);
            if l > MAX as u64 {
                out.probe("oversize_payload_offered_to_encoder");
                if r.is_ok() {
                    out.violate(prop, "oversize-encode-accepted", "encoder", format!("a frame with a {l}-byte payload (> 1 MiB) was encoded ({} bytes written)", buf.len()));
                } else if !buf.is_empty() {
                    out.probe("encoder_error_left_bytes_in_buffer");
                }
                offered.push((frame, false));
                continue;
            }
            if l == MAX as u64 {
                out.probe("frame_exactly_at_limit");
            }
            if let Err(e) = r {
                out.violate(prop, "encode-refused", "encoder", format!("a frame with a legal {l}-byte payload was refused: {e}"));
                continue;
            }
            if buf.len() as u64 != 9 + l {
                out.violate(prop, "encoded-size-mismatch", "encoder", format!("payload of {l} bytes encoded to {} bytes (expected {})", buf.len(), 9 + l));
            }
            let prefix = u64::from_be_bytes(buf[..8].try_into().unwrap());
            if prefix != l || prefix as usize != buf.len() - 9 {
                out.violate(prop, "prefix-mismatch", "encoder", format!("length prefix {prefix} but payload is {} bytes (reference {l})", buf.len() - 9));
            }
            if buf[8] != reference_type(spec) {
                out.violate(prop, "type-byte-mismatch", "encoder", format!("type byte {} for {:?}", buf[8], reference_type(spec)));
            }
            reference_wire.extend_from_slice(&buf);
            boundaries.push(reference_wire.len());
            offered.push((frame.clone(), true));
            expected.push(frame);
            expected_specs.push(spec);
        }
        // ---- write side: FramedWrite over the scripted pipe ----
        let mut fw = FramedWrite::new(PipeWriter::new(sc.wplan.clone()), MessageCodec);
        if sc.wplan.len() > 1 {
            fw.set_backpressure_boundary(64);
        }
        // "stuck" = many consecutive polls without a single byte reaching the pipe (a slow plan that
        // accepts one byte every few polls is slow, not stuck)
        let mut stuck = 0u32;
        let mut last_len = 0usize;
        for (f, legal) in &offered {
            // poll_ready
            loop {
                match Pin::new(&mut fw).poll_ready(&mut cx) {
                    Poll::Ready(Ok(())) => break,
                    Poll::Ready(Err(e)) => {
                        out.violate(prop, "write-error", "framed-write", format!("poll_ready failed: {e}"));
                        return;
                    }
                    Poll::Pending => {
                        let len = fw.get_ref().out.len();
                        if len != last_len {
                            last_len = len;
                            stuck = 0;
                        }
                        stuck += 1;
                        if stuck > 100_000 {
                            out.violate(prop, "write-stuck", "framed-write", "poll_ready never became ready".into());
                            return;
                        }
                    }
                }
            }
            match Pin::new(&mut fw).start_send(f.clone()) {
                Ok(()) if !*legal => {
                    out.violate(prop, "oversize-encode-accepted", "framed-write", "a frame with a payload above 1 MiB was accepted by the framed writer".into());
                    return;
                }
                // refused: the sink stays in use, the refusal must leave nothing behind (checked
                // below: the wire must be the concatenation of the legal frames only)
                Err(_) if !*legal => out.probe("sink_used_after_refused_frame"),
                Err(e) => {
                    out.violate(prop, "write-error", "framed-write", format!("start_send failed: {e}"));
                    return;
                }
                Ok(()) => {}
            }
        }
        loop {
            match Pin::new(&mut fw).poll_flush(&mut cx) {
                Poll::Ready(Ok(())) => break,
                Poll::Ready(Err(e)) => {
                    out.violate(prop, "write-error", "framed-write", format!("poll_flush failed: {e}"));
                    return;
                }
                Poll::Pending => {
                    let len = fw.get_ref().out.len();
                    if len != last_len {
                        last_len = len;
                        stuck = 0;
                    }
                    stuck += 1;
                    if stuck > 100_000 {
                        out.violate(prop, "write-stuck", "framed-write", "poll_flush never completed".into());
                        return;
                    }
                }
            }
        }
        let writer = fw.into_inner();
        out.fault_n("short_write", writer.short_writes);
        out.fault_n("write_pending", writer.pendings);
        let wire = writer.out;
        if wire != reference_wire {
            out.violate(prop, "wire-mismatch", "framed-write", format!("bytes on the wire ({}) differ from the concatenated encodings ({})", wire.len(), reference_wire.len()));
        }
        // ---- read side: FramedRead over the scripted pipe ----
        let mut fr = FramedRead::new(PipeReader::new(wire.clone(), sc.rplan.clone(), false), MessageCodec);
        let mut got: Vec<Frame> = vec![];
        let mut pend = 0u32;
        let mut last_off = 0usize;
        loop {
            if fr.get_ref().off != last_off {
                last_off = fr.get_ref().off;
                pend = 0;
            }
            match Pin::new(&mut fr).poll_next(&mut cx) {
                Poll::Ready(Some(Ok(f))) => got.push(f),
                Poll::Ready(Some(Err(e))) => {
                    out.violate(prop, "decode-error", "framed-read", format!("valid stream produced an error after {} frames: {e}", got.len()));
                    break;
                }
                Poll::Ready(None) => break,
                Poll::Pending => {
                    pend += 1;
                    if pend > 100_000 {
                        out.violate(prop, "read-stuck", "framed-read", "reader never finished".into());
                        break;
                    }
                }
            }
        }
        let reader = fr.get_ref();
        out.fault_n("read_pending", reader.pendings);
        if reader.off != wire.len() {
            out.violate(prop, "bytes-left", "framed-read", format!("{} of {} bytes consumed", reader.off, wire.len()));
        }
        if got.len() != expected.len() {
            out.violate(prop, "frame-count-mismatch", "framed-read", format!("{} frames written, {} decoded", expected.len(), got.len()));
        }
        for (i, (g, e)) in got.iter().zip(expected.iter()).enumerate() {
            if g != e {
                out.violate(prop, "roundtrip-mismatch", &format!("type-{}", reference_type(expected_specs[i])), format!("frame {i} decoded differently from what was written"));
                break;
            }
        }
        // batch bodies
        for (i, spec) in expected_specs.iter().enumerate() {
            if let Some(msgs) = spec.batch_messages() {
                if let Some(Frame::BatchMessage(body)) = got.get(i) {
                    match decode_message_batch(body.clone()).into_batch() {
                        Ok(back) => {
                            if back != msgs {
                                out.violate(prop, "batch-mismatch", "unbatch", format!("batch of {} messages unbatched to {} messages / different contents", msgs.len(), back.len()));
                            }
                        }
                        Err(e) => out.violate(prop, "batch-mismatch", "unbatch-error", format!("a batch built by encode_message_batch from {} messages was rejected: {e}", msgs.len())),
                    }
                    out.probe("batch_roundtrip");
                }
            }
        }
        // cut classification
        let mut th = Hasher64::default();
        let cuts = reader.cuts.clone();
        let mut in_prefix = 0u64;
        let mut frames_in_chunk_max = 0usize;
        let mut prev = 0usize;
        for c in &cuts {
            let fi = match boundaries.binary_search(c) {
                Ok(_) => {
                    th.word(0);
                    usize::MAX
                }
                Err(i) => i - 1,
            };
            if fi != usize::MAX {
                let rel = c - boundaries[fi];
                let class = if rel < 8 {
                    in_prefix += 1;
                    1
                } else if rel == 8 {
                    2
                } else if rel == 9 {
                    3
                } else {
                    4
                };
                th.word(class);
            }
            let n = boundaries.iter().filter(|b| **b > prev && **b <= *c).count();
            frames_in_chunk_max = frames_in_chunk_max.max(n);
            prev = *c;
        }
        th.word(expected.len() as u64);
        out.probe_n("cut_inside_length_prefix", in_prefix);
        if frames_in_chunk_max >= 3 {
            out.probe("three_or_more_frames_in_one_chunk");
        }
        out.steps = cuts.len() as u64;
        out.nontrivial = expected.len() >= 2 && cuts.len() >= 2;
        // ---- decoder refuses an oversize length prefix as soon as the 9-byte header is in ----
        if let Some((len, ty)) = sc.oversize_decode {
            out.probe("oversize_prefix_offered_to_decoder");
            let mut bytes = wire.clone();
            bytes.extend_from_slice(&len.to_be_bytes());
            bytes.push(ty);
            let mut fr = FramedRead::new(PipeReader::new(bytes, sc.rplan.clone(), true), MessageCodec);
            let mut n = 0usize;
            let mut pend = 0u32;
            let mut refused = false;
            loop {
                match Pin::new(&mut fr).poll_next(&mut cx) {
                    Poll::Ready(Some(Ok(_))) => n += 1,
                    Poll::Ready(Some(Err(_))) => {
                        refused = true;
                        break;
                    }
                    Poll::Ready(None) => break,
                    Poll::Pending => {
                        let r = fr.get_ref();
                        if r.off >= r.data.len() {
                            break; // all bytes delivered, decoder waits for more
                        }
                        pend += 1;
                        if pend > 5_000_000 {
                            break;
                        }
                    }
                }
            }
            if !refused {
                out.violate(prop, "oversize-prefix-not-refused", "decoder", format!("a header announcing {len} bytes (> 1 MiB) was not refused once its 9 bytes had arrived ({n} valid frames before it); the decoder waits for the payload"));
            } else if n != expected.len() {
                out.violate(prop, "frame-count-mismatch", "framed-read-before-oversize", format!("{} valid frames precede the oversize header, {n} were decoded", expected.len()));
            }
            let cap = fr.read_buffer().capacity();
            if cap > 4 * MAX {
                out.violate(prop, "oversize-prefix-buffered", "decoder", format!("read buffer grew to {cap} bytes on an oversize header"));
            }
            th.word(len);
        }
        out.trace_hash = th.finish();
        let mut fh = Hasher64::default();
        fh.word(th.0);
        fh.bytes(&wire);
        out.full_hash = fh.finish();
    }));
    if r.is_err() {
        let all = crate::panics::take_all();
        let (loc, msg) = all.into_iter().next().unwrap_or(("unknown".into(), "unknown".into()));
        out.violate(prop, "panic", &format!("panic@{loc}"), format!("panicked at {loc}: {msg}"));
    }
    if opts.want_log {
        out.log.push(format!("{} frames, wplan {:?}, rplan {:?}", sc.frames.len(), sc.wplan, sc.rplan));
    }
    out
}

pub struct WireClean;
pub static WIRE_CLEAN: WireClean = WireClean;

impl Family for WireClean {
    fn name(&self) -> &'static str {
        "wire-clean"
    }
    fn engine(&self) -> &'static str {
        "W"
    }
    fn generate(&self, _p: &str, _t: Tier, _i: u64, _n: u64, rng: &mut Rng) -> Value {
        serde_json::to_value(gen_script(rng)).unwrap()
    }
    fn execute(&self, property: &str, body: &Value, opts: &ExecOpts) -> Outcome {
        match serde_json::from_value::<CleanScript>(body.clone()) {
            Ok(sc) => execute(property, &sc, opts),
            Err(e) => {
                let mut o = Outcome::default();
                o.inconclusive = true;
                o.log.push(format!("bad script: {e}"));
                o
            }
        }
    }
    fn shrink(&self, body: &Value) -> Vec<Value> {
        let Ok(sc) = serde_json::from_value::<CleanScript>(body.clone()) else { return vec![] };
        let mut out = vec![];
        for i in 0..sc.frames.len() {
            let mut c = sc.clone();
            c.frames.remove(i);
            out.push(c);
        }
        if sc.oversize_decode.is_some() {
            let mut c = sc.clone();
            c.oversize_decode = None;
            out.push(c);
        }
        if sc.wplan.len() > 1 {
            let mut c = sc.clone();
            c.wplan = vec![WOut::Accept(usize::MAX)];
            out.push(c);
        }
        if sc.rplan.len() > 1 {
            let mut c = sc.clone();
            c.rplan = vec![ROut::Chunk(usize::MAX)];
            out.push(c);
            let mut c = sc.clone();
            c.rplan = vec![ROut::Chunk(1)];
            out.push(c);
        }
        for (i, f) in sc.frames.iter().enumerate() {
            if let FrameSpec::Msg { headers, size, fill } = f {
                if *size > 1 && *size <= MAX {
                    let mut c = sc.clone();
                    c.frames[i] = FrameSpec::Msg { headers: headers.clone(), size: 1, fill: *fill };
                    out.push(c);
                }
                if headers.is_some() {
                    let mut c = sc.clone();
                    c.frames[i] = FrameSpec::Msg { headers: None, size: *size, fill: *fill };
                    out.push(c);
                }
            }
        }
        out.into_iter().map(|s| serde_json::to_value(s).unwrap()).collect()
    }
    fn watchdog_ms(&self) -> u64 {
        30_000
    }
}
