//! R-engine, request/reply: the real `selium_server::topic::reqrep::Topic` (with the real `Router`,
//! `StreamMap` and registration channel) against scripted requestors and repliers.
//!
//! Sinks 0..n_req and streams 0..n_req belong to requestors; sinks/streams n_req.. to repliers.

use super::mocks::*;
use crate::core::*;
use crate::rng::{Hasher64, Rng};
use bytes::Bytes;
use selium_protocol::error_codes::REPLIER_ALREADY_BOUND;
use selium_protocol::{ErrorPayload, Frame, MessagePayload, PublisherPayload, ReplierPayload, TopicName};
use selium_server::topic::reqrep;
use selium_std::errors::SeliumError;
use serde::{Deserialize, Serialize};
use serde_json::Value;
use std::collections::{BTreeMap, HashMap};

#[derive(Clone, Copy, Debug, Serialize, Deserialize, PartialEq)]
#[serde(rename_all = "snake_case")]
pub enum Pick {
    Oldest,
    Newest,
    All,
}

#[derive(Clone, Copy, Debug, Serialize, Deserialize, PartialEq)]
#[serde(rename_all = "snake_case")]
pub enum BadTag {
    NoHeaders,
    NoCid,
    Empty,
    Abc,
    Negative,
    Huge,
    Unknown,
}

#[derive(Clone, Copy, Debug, Serialize, Deserialize, PartialEq)]
#[serde(rename_all = "snake_case")]
pub enum OddFrame {
    Ok,
    Batch,
    Error,
    RegisterPublisher,
    RegisterReplier,
    /// a request that fits the frame limit until the server adds its routing tag
    NearLimitMessage,
}

#[derive(Clone, Debug, Serialize, Deserialize, PartialEq)]
#[serde(rename_all = "snake_case")]
pub enum RrStep {
    RegReq(usize),
    RegRep(usize),
    Request { r: usize, n: usize, forge: Option<String> },
    ReqErr(usize),
    EndReq(usize),
    Reply { q: usize, pick: Pick },
    ReplyBad { q: usize, tag: BadTag },
    RepErr(usize),
    EndRep(usize),
    /// the peer's connection dies: stream ends and its sink fails from now on
    CrashReq(usize),
    CrashRep(usize),
    /// hostile / confused peers (C11): frames of the wrong kind mid-stream
    ReqFrame { r: usize, kind: OddFrame },
    RepFrame { q: usize, kind: OddFrame },
    Gate { sink: usize, open: bool },
    Wake,
    Close,
    DropSender,
}

#[derive(Clone, Debug, Serialize, Deserialize)]
pub struct RrFail {
    pub sink: usize,
    pub op: Op,
    pub k: usize,
    /// only this operation fails (persistently); the sink's other operations keep succeeding
    #[serde(default)]
    pub only_op: bool,
}

#[derive(Clone, Debug, Serialize, Deserialize)]
pub struct RrScript {
    pub wake_driven: bool,
    pub n_req: usize,
    pub n_rep: usize,
    pub boundaries: Vec<usize>,
    pub gates: Vec<bool>,
    #[serde(default)]
    pub fails: Vec<RrFail>,
    pub steps: Vec<RrStep>,
}

fn req_label(r: usize, seq: usize) -> String {
    format!("r{r}:{seq}")
}

fn parse_req_label(s: &str) -> Option<(usize, usize)> {
    let s = s.strip_prefix('r')?;
    let (a, b) = s.split_once(':')?;
    Some((a.parse().ok()?, b.parse().ok()?))
}

fn payload_str(f: &Frame) -> String {
    match f {
        Frame::Message(m) => String::from_utf8_lossy(&m.message).to_string(),
        Frame::BatchMessage(b) => format!("batch:{}", String::from_utf8_lossy(b)),
        Frame::Error(e) => format!("error:{}:{}", e.code, String::from_utf8_lossy(&e.message)),
        Frame::Ok => "ok".into(),
        other => format!("{other:?}").chars().take(40).collect(),
    }
}

fn odd_frame(kind: OddFrame, tagn: usize) -> Frame {
    match kind {
        OddFrame::Ok => Frame::Ok,
        OddFrame::Batch => Frame::BatchMessage(Bytes::from(format!("odd-batch-{tagn}"))),
        OddFrame::Error => Frame::Error(ErrorPayload { code: 0, message: Bytes::from(format!("odd-error-{tagn}")) }),
        OddFrame::RegisterPublisher => Frame::RegisterPublisher(PublisherPayload {
            topic: TopicName::_create_unchecked("namespace", "topic"),
            retention_policy: 0,
            operations: vec![],
        }),
        OddFrame::RegisterReplier => Frame::RegisterReplier(ReplierPayload { topic: TopicName::_create_unchecked("namespace", "topic") }),
        OddFrame::NearLimitMessage => {
            // headers None + payload: bincode size = 1 (None) + 8 (len) + n; choose n so the frame is exactly at the limit
            let n = 1024 * 1024 - 9;
            let mut body = format!("big{tagn}:").into_bytes();
            body.resize(n, b'x');
            Frame::Message(MessagePayload { headers: None, message: Bytes::from(body) })
        }
    }
}

#[derive(Clone, Copy, Default)]
pub struct RrFlags {
    pub fails: bool,
    pub stream_errs: bool,
    pub close: bool,
    pub force_wake: Option<bool>,
    pub partial: bool,
    pub multi_replier: bool,
    pub bad_tags: bool,
    pub odd_frames: bool,
    pub departures: bool,
    pub large: bool,
    /// some departures are connection deaths (stream end + sink failure together)
    pub crashes: bool,
}

pub fn gen_script(rng: &mut Rng, flags: RrFlags) -> RrScript {
    let n_req = if flags.partial { *rng.pick(&[0usize, 0, 1, 1, 2]) } else if flags.large { rng.usize(3, 8) } else { *rng.pick(&[1usize, 1, 2, 2, 2, 3, 3, 4]) };
    let n_rep = if flags.partial {
        *rng.pick(&[0usize, 0, 1, 1])
    } else if flags.multi_replier {
        *rng.pick(&[1usize, 2, 2, 3, 3, 4, 5])
    } else {
        1
    };
    let n_sinks = n_req + n_rep;
    let boundaries: Vec<usize> = (0..n_sinks).map(|_| rng.usize(1, 4)).collect();
    let gates: Vec<bool> = (0..n_sinks).map(|_| !rng.chance(1, 5)).collect();
    let wake_driven = flags.force_wake.unwrap_or_else(|| rng.chance(1, 2));
    let mut steps = vec![];
    let mut reg_req = vec![false; n_req];
    let mut reg_rep = vec![false; n_rep];
    let mut ended_req = vec![false; n_req];
    let mut ended_rep = vec![false; n_rep];
    let mut gate = gates.clone();
    let mut budget = if flags.large { rng.usize(20, 100) } else { rng.usize(0, 30) };
    let mut burst_done = false;
    // common topology: everything registered up front (replier first or last)
    if rng.chance(3, 5) && !flags.partial {
        let mut regs: Vec<RrStep> = (0..n_req).map(RrStep::RegReq).collect();
        if !flags.multi_replier {
            regs.push(RrStep::RegRep(0));
        } else if n_rep > 0 {
            regs.push(RrStep::RegRep(0));
        }
        rng.shuffle(&mut regs);
        for r in regs {
            match r {
                RrStep::RegReq(i) => reg_req[i] = true,
                RrStep::RegRep(i) => reg_rep[i] = true,
                _ => {}
            }
            steps.push(r);
        }
    }
    let len = if flags.large { rng.usize(40, 200) } else { rng.usize(3, 60) };
    for _ in 0..len {
        let mut choices: Vec<(u64, u8)> = vec![];
        if reg_req.iter().any(|r| !r) {
            choices.push((4, 0));
        }
        if reg_rep.iter().any(|r| !r) {
            choices.push((if flags.multi_replier { 6 } else { 4 }, 1));
        }
        if n_req > 0 && budget > 0 && ended_req.iter().any(|e| !e) {
            choices.push((12, 2));
        }
        if n_rep > 0 {
            choices.push((12, 3)); // reply
        }
        if n_sinks > 0 {
            choices.push((8, 4)); // gate
        }
        choices.push((1, 5)); // wake
        if flags.bad_tags && n_rep > 0 {
            choices.push((3, 6));
        }
        if flags.stream_errs && n_req > 0 {
            choices.push((1, 7));
        }
        if flags.stream_errs && n_rep > 0 {
            choices.push((1, 8));
        }
        if flags.departures && n_req > 0 && ended_req.iter().any(|e| !e) {
            choices.push((1, 9));
        }
        if (flags.departures || flags.multi_replier) && n_rep > 0 && ended_rep.iter().any(|e| !e) {
            choices.push((if flags.multi_replier { 4 } else { 1 }, 10));
        }
        if flags.odd_frames && n_req > 0 {
            choices.push((3, 11));
        }
        if flags.odd_frames && n_rep > 0 {
            choices.push((3, 12));
        }
        let total: u64 = choices.iter().map(|c| c.0).sum();
        let mut x = rng.below(total);
        let mut pick = 5u8;
        for (w, c) in &choices {
            if x < *w {
                pick = *c;
                break;
            }
            x -= w;
        }
        match pick {
            0 => {
                let c: Vec<usize> = (0..n_req).filter(|i| !reg_req[*i]).collect();
                let i = *rng.pick(&c);
                reg_req[i] = true;
                steps.push(RrStep::RegReq(i));
            }
            1 => {
                let c: Vec<usize> = (0..n_rep).filter(|i| !reg_rep[*i]).collect();
                let i = c[0]; // repliers register in index order so "earlier" is well defined
                reg_rep[i] = true;
                steps.push(RrStep::RegRep(i));
            }
            2 => {
                let c: Vec<usize> = (0..n_req).filter(|i| !ended_req[*i]).collect();
                let r = *rng.pick(&c);
                // now and then one requestor has a long run of requests ready at once, all of
                // which the replier then answers in one go
                if !burst_done && rng.chance(1, 80) {
                    burst_done = true;
                    steps.push(RrStep::Request { r, n: rng.usize(100, 300), forge: None });
                    if n_rep > 0 && rng.chance(2, 3) {
                        steps.push(RrStep::Reply { q: 0, pick: Pick::All });
                    }
                    continue;
                }
                let n = rng.usize(1, 3).min(budget);
                budget -= n;
                let forge = if rng.chance(1, 6) { Some(rng.pick(&["0", "1", "2", "", "abc", "99", "CID=0", "Cid=1", "cID=2", "CID=1"]).to_string()) } else { None };
                steps.push(RrStep::Request { r, n, forge });
            }
            3 => {
                let q = rng.usize(0, n_rep - 1);
                let pick = *rng.pick(&[Pick::Oldest, Pick::Oldest, Pick::Newest, Pick::All]);
                steps.push(RrStep::Reply { q, pick });
            }
            4 => {
                let s = rng.usize(0, n_sinks - 1);
                gate[s] = !gate[s];
                steps.push(RrStep::Gate { sink: s, open: gate[s] });
            }
            6 => {
                let q = rng.usize(0, n_rep - 1);
                let tag = *rng.pick(&[BadTag::NoHeaders, BadTag::NoCid, BadTag::Empty, BadTag::Abc, BadTag::Negative, BadTag::Huge, BadTag::Unknown]);
                steps.push(RrStep::ReplyBad { q, tag });
            }
            7 => steps.push(RrStep::ReqErr(rng.usize(0, n_req - 1))),
            8 => steps.push(RrStep::RepErr(rng.usize(0, n_rep - 1))),
            9 => {
                let c: Vec<usize> = (0..n_req).filter(|i| !ended_req[*i]).collect();
                let r = *rng.pick(&c);
                ended_req[r] = true;
                steps.push(if flags.crashes && rng.chance(1, 3) { RrStep::CrashReq(r) } else { RrStep::EndReq(r) });
            }
            10 => {
                let c: Vec<usize> = (0..n_rep).filter(|i| !ended_rep[*i] && reg_rep[*i]).collect();
                if !c.is_empty() {
                    let q = *rng.pick(&c);
                    ended_rep[q] = true;
                    steps.push(if flags.crashes && rng.chance(1, 3) { RrStep::CrashRep(q) } else { RrStep::EndRep(q) });
                }
            }
            11 => {
                let kind = *rng.pick(&[OddFrame::Ok, OddFrame::Batch, OddFrame::Error, OddFrame::RegisterPublisher, OddFrame::RegisterReplier, OddFrame::NearLimitMessage]);
                steps.push(RrStep::ReqFrame { r: rng.usize(0, n_req - 1), kind });
            }
            12 => {
                let kind = *rng.pick(&[OddFrame::Ok, OddFrame::Batch, OddFrame::Error, OddFrame::RegisterPublisher, OddFrame::RegisterReplier]);
                steps.push(RrStep::RepFrame { q: rng.usize(0, n_rep - 1), kind });
            }
            _ => steps.push(RrStep::Wake),
        }
    }
    for i in 0..n_req {
        if !reg_req[i] && rng.chance(3, 4) {
            steps.push(RrStep::RegReq(i));
        }
    }
    for i in 0..n_rep {
        if !reg_rep[i] && rng.chance(3, 4) {
            steps.push(RrStep::RegRep(i));
            // give the late replier something to do
            if n_req > 0 && rng.chance(1, 2) {
                steps.push(RrStep::Request { r: rng.usize(0, n_req - 1), n: 1, forge: None });
            }
        }
    }
    // biased tail: reply burst while a requestor sink is blocked (the overwrite window)
    if n_req > 0 && n_rep > 0 && rng.chance(1, 2) {
        let r = rng.usize(0, n_req - 1);
        steps.push(RrStep::Request { r, n: rng.usize(2, 3), forge: None });
        steps.push(RrStep::Gate { sink: r, open: false });
        steps.push(RrStep::Reply { q: 0, pick: Pick::All });
        if rng.chance(1, 2) {
            steps.push(RrStep::Reply { q: 0, pick: Pick::All });
        }
    }
    if flags.close {
        let pos = rng.usize(0, steps.len());
        let step = if rng.chance(1, 5) { RrStep::DropSender } else { RrStep::Close };
        steps.insert(pos, step);
    }
    let mut fails = vec![];
    if flags.fails && n_sinks > 0 {
        let nf = if n_sinks > 1 && rng.chance(1, 3) { 2 } else { 1 };
        let mut cands: Vec<usize> = (0..n_sinks).collect();
        rng.shuffle(&mut cands);
        for s in cands.into_iter().take(nf) {
            fails.push(RrFail { sink: s, op: *rng.pick(&Op::ALL), k: rng.usize(0, 4), only_op: rng.chance(1, 3) });
        }
    }
    RrScript { wake_driven, n_req, n_rep, boundaries, gates, fails, steps }
}

#[derive(Clone, Debug)]
struct EmittedReply {
    q: usize,
    /// Some(r) if built from a request of requestor r (well-tagged), None if ill-tagged
    target: Option<usize>,
    expected: Option<Frame>,
    label: String,
}

struct Run<'a> {
    prop: &'a str,
    sc: &'a RrScript,
    world: Shared,
    exec: Exec,
    tx: Option<futures::channel::mpsc::Sender<reqrep::Socket<SeliumError>>>,
    req_seq: Vec<usize>,
    req_reg: Vec<bool>,
    rep_reg: Vec<bool>,
    req_ended: Vec<bool>,
    rep_ended: Vec<bool>,
    /// per replier: how many inbox entries have been answered
    answered: Vec<Vec<bool>>,
    emitted: Vec<EmittedReply>,
    reply_counter: usize,
    odd_counter: usize,
    /// original request frames by label (as fed)
    fed_requests: HashMap<String, Frame>,
    /// accepted-request count by which each replier's registration must have been processed
    rep_settled_at: Vec<Option<usize>>,
    /// per replier: a parked poll happened after its stream end was scripted
    rep_unbind_settled: Vec<bool>,
    /// per replier: index (in registration order) and whether another replier was live at its registration
    rep_live_rival_at_reg: Vec<Option<bool>>,
    rep_reg_order: Vec<usize>,
    closed: bool,
    out: Outcome,
    stop: bool,
    hostile_frames_fed: bool,
    req_after_hostile: bool,
    hostile_req: Vec<bool>,
    hostile_rep: Vec<bool>,
}

impl<'a> Run<'a> {
    fn n_req(&self) -> usize {
        self.sc.n_req
    }
    fn rep_sink(&self, q: usize) -> usize {
        self.sc.n_req + q
    }
    fn accepted_requests(&self) -> usize {
        let w = lock(&self.world);
        w.accepted.iter().filter(|(sid, _)| *sid < self.sc.n_req).count()
    }

    fn poll(&mut self) {
        if !self.exec.alive() {
            return;
        }
        let (avail, peers) = {
            let w = lock(&self.world);
            let avail: usize = w.streams.iter().map(|s| s.queue.len() + s.ended as usize).sum::<usize>();
            (avail + 3, w.sinks.len() + w.streams.len() + 1)
        };
        let r = self.exec.poll_once();
        let (calls, sink_pending) = {
            let w = lock(&self.world);
            (w.calls_this_poll, w.any_sink_pending_this_poll())
        };
        match r {
            PollOutcome::Pending => {
                if !sink_pending && !self.exec.is_woken() {
                    let acc = self.accepted_requests();
                    for q in 0..self.rep_reg.len() {
                        if self.rep_reg[q] && self.rep_settled_at[q].is_none() {
                            self.rep_settled_at[q] = Some(acc);
                        }
                        let errored = lock(&self.world).sinks[self.sc.n_req + q].errored;
                        if self.rep_ended[q] || errored {
                            self.rep_unbind_settled[q] = true;
                        }
                    }
                }
            }
            PollOutcome::Ready => {
                self.out.probe("router_completed");
                if !self.closed {
                    self.out.violate(self.prop, "router-finished-unasked", "ready-without-close", "router future completed although the registration channel is open".into());
                    self.stop = true;
                }
            }
            PollOutcome::Panicked { location, message } => {
                let hard = lock(&self.world).hard_limit_hit.clone();
                if let Some(h) = hard {
                    let state = self.topology();
                    self.out.violate(self.prop, "spin-inside-poll", &format!("reqrep-router:{state}"), format!("router did not yield ({state}): {h}"));
                } else {
                    self.out.violate(self.prop, "router-panic", &format!("panic@{location}"), format!("request/reply router panicked at {location}: {message}"));
                }
                self.stop = true;
            }
            PollOutcome::AlreadyDone => {}
        }
        let budget = 8 * (avail as u64 + 1) * (peers as u64 + 1);
        if calls > budget && !self.stop {
            self.out.violate(self.prop, "unbounded-work-in-poll", "reqrep-router", format!("one poll made {calls} peer calls with only {avail} consumable inputs and {peers} peers (budget {budget})"));
        }
    }

    /// coarse description of which sides are present (signature of a spin)
    fn topology(&self) -> String {
        let reqs = (0..self.sc.n_req).filter(|r| self.req_reg[*r] && !self.req_ended[*r]).count();
        let reps = (0..self.sc.n_rep).filter(|q| self.rep_reg[*q] && !self.rep_ended[*q]).count();
        format!("{}-requestor-streams/{}-replier", if reqs == 0 { "no" } else { "some" }, if reps == 0 { "no" } else { "a" })
    }

    fn maybe_poll(&mut self) {
        if self.stop {
            return;
        }
        if !self.sc.wake_driven || self.exec.is_woken() {
            self.poll();
        }
    }

    fn live_rival(&self, q: usize) -> bool {
        let w = lock(&self.world);
        (0..self.sc.n_rep).any(|o| {
            let s = &w.sinks[self.sc.n_req + o];
            // a replier that ended or failed counts as gone only once the router has had a parked
            // poll since (it may legitimately finish flushing before it unbinds)
            o != q && self.rep_reg[o] && !((self.rep_ended[o] || s.errored) && self.rep_unbind_settled[o]) && !s.closed
        })
    }

    fn step(&mut self, st: &RrStep) {
        let n_req = self.n_req();
        match st {
            RrStep::RegReq(r) => {
                if *r >= n_req || self.req_reg[*r] {
                    return;
                }
                if let Some(tx) = self.tx.as_mut() {
                    let sink = MockSink { world: self.world.clone(), id: *r };
                    let stream = MockStream { world: self.world.clone(), id: *r };
                    if tx.try_send(reqrep::Socket::Client((Box::pin(sink), Box::pin(stream)))).is_ok() {
                        self.req_reg[*r] = true;
                    }
                }
            }
            RrStep::RegRep(q) => {
                if *q >= self.sc.n_rep || self.rep_reg[*q] {
                    return;
                }
                let rival = self.live_rival(*q);
                if let Some(tx) = self.tx.as_mut() {
                    let id = n_req + *q;
                    let sink = MockSink { world: self.world.clone(), id };
                    let stream = MockStream { world: self.world.clone(), id };
                    if tx.try_send(reqrep::Socket::Server((Box::pin(sink), Box::pin(stream)))).is_ok() {
                        self.rep_reg[*q] = true;
                        self.rep_live_rival_at_reg[*q] = Some(rival);
                        self.rep_reg_order.push(*q);
                        if rival {
                            self.out.probe("replier_registers_while_another_is_live");
                        }
                    }
                }
            }
            RrStep::Request { r, n, forge } => {
                if *r >= n_req || self.req_ended[*r] {
                    return;
                }
                for _ in 0..*n {
                    let seq = self.req_seq[*r];
                    self.req_seq[*r] += 1;
                    let mut h = HashMap::new();
                    h.insert("req_id".to_string(), format!("{seq}"));
                    if seq % 3 == 2 {
                        h.insert("x-extra".to_string(), format!("v{seq}"));
                    }
                    if let Some(f) = forge {
                        // "KEY=value": a header whose name differs from the routing tag's only
                        // in case (it is an ordinary header and has to survive as one)
                        match f.split_once('=') {
                            Some((k, v)) => {
                                h.insert(k.to_string(), v.to_string());
                                self.out.probe("header_named_like_the_routing_tag");
                            }
                            None => {
                                h.insert("cid".to_string(), f.clone());
                            }
                        }
                        self.out.probe("forged_cid_request");
                    }
                    let label = req_label(*r, seq);
                    let frame = Frame::Message(MessagePayload { headers: Some(h), message: Bytes::from(label.clone()) });
                    self.fed_requests.insert(label, frame.clone());
                    lock(&self.world).feed(*r, Ok(frame));
                    if self.hostile_frames_fed {
                        self.req_after_hostile = true;
                    }
                }
            }
            RrStep::ReqErr(r) => {
                if *r >= n_req || self.req_ended[*r] {
                    return;
                }
                lock(&self.world).feed(*r, Err(()));
                self.out.fault("requestor_stream_error");
            }
            RrStep::EndReq(r) => {
                if *r >= n_req || self.req_ended[*r] {
                    return;
                }
                self.req_ended[*r] = true;
                lock(&self.world).end_stream(*r);
                self.out.fault("requestor_stream_end");
            }
            RrStep::CrashReq(r) => {
                if *r >= n_req || self.req_ended[*r] {
                    return;
                }
                self.req_ended[*r] = true;
                lock(&self.world).crash_peer(*r);
                self.out.fault("requestor_connection_death");
            }
            RrStep::CrashRep(q) => {
                if *q >= self.sc.n_rep || self.rep_ended[*q] {
                    return;
                }
                self.rep_ended[*q] = true;
                let sink = self.rep_sink(*q);
                lock(&self.world).crash_peer(sink);
                self.out.fault("replier_connection_death");
            }
            RrStep::Reply { q, pick } => {
                if *q >= self.sc.n_rep || !self.rep_reg[*q] || self.rep_ended[*q] {
                    return;
                }
                let sink = self.rep_sink(*q);
                let inbox: Vec<Frame> = lock(&self.world).sinks[sink].handed.clone();
                self.answered[*q].resize(inbox.len(), false);
                // only genuine requests are answered (a frame-limit filler is not)
                let mut idxs: Vec<usize> = (0..inbox.len())
                    .filter(|i| !self.answered[*q][*i] && matches!(&inbox[*i], Frame::Message(m) if m.message.len() < 1000 && parse_req_label(&String::from_utf8_lossy(&m.message)).is_some()))
                    .collect();
                match pick {
                    Pick::Oldest => idxs.truncate(1),
                    Pick::Newest => {
                        if let Some(l) = idxs.last().cloned() {
                            idxs = vec![l];
                        }
                    }
                    Pick::All => {
                        if idxs.len() > 1 {
                            self.out.probe("reply_burst");
                            // out of order on purpose
                            idxs.reverse();
                        }
                    }
                }
                for i in idxs {
                    self.answered[*q][i] = true;
                    if let Frame::Message(m) = &inbox[i] {
                        let reql = String::from_utf8_lossy(&m.message).to_string();
                        self.reply_counter += 1;
                        let label = format!("re{}:{}", self.reply_counter, reql);
                        let frame = Frame::Message(MessagePayload { headers: m.headers.clone(), message: Bytes::from(label.clone()) });
                        let target = parse_req_label(&reql).map(|(r, _)| r);
                        let mut eh = m.headers.clone().unwrap_or_default();
                        eh.remove("cid");
                        let expected = Frame::Message(MessagePayload { headers: if eh.is_empty() { None } else { Some(eh) }, message: Bytes::from(label.clone()) });
                        // a reply to a frame the server should never have forwarded has no target
                        let well = target.is_some() && m.headers.as_ref().map(|h| h.contains_key("cid")).unwrap_or(false);
                        self.emitted.push(EmittedReply { q: *q, target: if well { target } else { None }, expected: if well { Some(expected) } else { None }, label });
                        lock(&self.world).feed(sink, Ok(frame));
                    }
                }
            }
            RrStep::ReplyBad { q, tag } => {
                if *q >= self.sc.n_rep || !self.rep_reg[*q] || self.rep_ended[*q] {
                    return;
                }
                self.reply_counter += 1;
                let label = format!("bad{}", self.reply_counter);
                let mut h = HashMap::new();
                h.insert("req_id".to_string(), "7".to_string());
                let headers = match tag {
                    BadTag::NoHeaders => None,
                    BadTag::NoCid => Some(h),
                    BadTag::Empty => {
                        h.insert("cid".into(), "".into());
                        Some(h)
                    }
                    BadTag::Abc => {
                        h.insert("cid".into(), "abc".into());
                        Some(h)
                    }
                    BadTag::Negative => {
                        h.insert("cid".into(), "-1".into());
                        Some(h)
                    }
                    BadTag::Huge => {
                        h.insert("cid".into(), "99999999999999999999".into());
                        Some(h)
                    }
                    BadTag::Unknown => {
                        h.insert("cid".into(), "4242".into());
                        Some(h)
                    }
                };
                let frame = Frame::Message(MessagePayload { headers, message: Bytes::from(label.clone()) });
                self.emitted.push(EmittedReply { q: *q, target: None, expected: None, label });
                let sink = self.rep_sink(*q);
                lock(&self.world).feed(sink, Ok(frame));
                self.out.fault("ill_tagged_reply");
            }
            RrStep::RepErr(q) => {
                if *q >= self.sc.n_rep || !self.rep_reg[*q] || self.rep_ended[*q] {
                    return;
                }
                let sink = self.rep_sink(*q);
                lock(&self.world).feed(sink, Err(()));
                self.out.fault("replier_stream_error");
            }
            RrStep::EndRep(q) => {
                if *q >= self.sc.n_rep || self.rep_ended[*q] {
                    return;
                }
                self.rep_ended[*q] = true;
                let sink = self.rep_sink(*q);
                lock(&self.world).end_stream(sink);
                self.out.fault("replier_stream_end");
            }
            RrStep::ReqFrame { r, kind } => {
                if *r >= n_req || self.req_ended[*r] {
                    return;
                }
                self.odd_counter += 1;
                lock(&self.world).feed(*r, Ok(odd_frame(*kind, self.odd_counter)));
                self.hostile_frames_fed = true;
                self.hostile_req[*r] = true;
                self.out.fault(&format!("requestor_sends_{kind:?}").to_lowercase());
            }
            RrStep::RepFrame { q, kind } => {
                if *q >= self.sc.n_rep || !self.rep_reg[*q] || self.rep_ended[*q] {
                    return;
                }
                self.odd_counter += 1;
                let sink = self.rep_sink(*q);
                lock(&self.world).feed(sink, Ok(odd_frame(*kind, self.odd_counter)));
                self.hostile_frames_fed = true;
                self.hostile_rep[*q] = true;
                self.out.fault(&format!("replier_sends_{kind:?}").to_lowercase());
            }
            RrStep::Gate { sink, open } => {
                if *sink >= self.sc.boundaries.len() {
                    return;
                }
                let woke = lock(&self.world).set_gate(*sink, *open);
                if !*open {
                    self.out.fault(if *sink < n_req { "requestor_backpressure" } else { "replier_backpressure" });
                }
                if woke {
                    self.out.probe("sink_wakeup_delivered");
                }
            }
            RrStep::Wake => {
                self.exec.flag.woken.store(true, std::sync::atomic::Ordering::SeqCst);
                self.out.fault("spurious_wake");
            }
            RrStep::Close => {
                if let Some(tx) = self.tx.as_mut() {
                    // as Server::shutdown does it (see rsim/pubsub.rs)
                    selium_server::topic::Sender::<Frame, SeliumError>::ReqRep(tx.clone()).close_channel();
                    self.closed = true;
                    self.out.fault("registration_channel_closed");
                }
            }
            RrStep::DropSender => {
                if self.tx.take().is_some() {
                    self.closed = true;
                    self.out.fault("registration_sender_dropped");
                }
            }
        }
    }
}

pub fn execute(prop: &str, sc: &RrScript, opts: &ExecOpts) -> Outcome {
    let world = World::new_shared();
    let n_sinks = sc.n_req + sc.n_rep;
    {
        let mut w = lock(&world);
        for s in 0..n_sinks {
            w.add_sink(*sc.boundaries.get(s).unwrap_or(&1), *sc.gates.get(s).unwrap_or(&true));
            w.add_stream();
        }
        for f in &sc.fails {
            if f.sink < n_sinks {
                w.sinks[f.sink].fail_at = Some((f.op, f.k));
                w.sinks[f.sink].fail_sticky = !f.only_op;
            }
        }
    }
    let (topic, tx) = reqrep::Topic::<SeliumError>::pair();
    let exec = Exec::new(topic, world.clone());
    let mut run = Run {
        prop,
        sc,
        world: world.clone(),
        exec,
        tx: Some(tx),
        req_seq: vec![0; sc.n_req],
        req_reg: vec![false; sc.n_req],
        rep_reg: vec![false; sc.n_rep],
        req_ended: vec![false; sc.n_req],
        rep_ended: vec![false; sc.n_rep],
        answered: vec![vec![]; sc.n_rep],
        emitted: vec![],
        reply_counter: 0,
        odd_counter: 0,
        fed_requests: HashMap::new(),
        rep_settled_at: vec![None; sc.n_rep],
        rep_unbind_settled: vec![false; sc.n_rep],
        rep_live_rival_at_reg: vec![None; sc.n_rep],
        rep_reg_order: vec![],
        closed: false,
        out: Outcome::default(),
        stop: false,
        hostile_frames_fed: false,
        req_after_hostile: false,
        hostile_req: vec![false; sc.n_req],
        hostile_rep: vec![false; sc.n_rep],
    };
    run.maybe_poll();
    for st in &sc.steps {
        if run.stop {
            break;
        }
        run.step(st);
        run.maybe_poll();
        run.out.steps += 1;
    }
    if !run.stop {
        for s in 0..n_sinks {
            lock(&world).set_gate(s, true);
        }
        let mut spins = 0;
        loop {
            if run.stop || !run.exec.alive() {
                break;
            }
            if run.exec.is_woken() {
                run.poll();
            } else if !sc.wake_driven && spins < 3 {
                run.poll();
                spins += 1;
            } else {
                break;
            }
            if run.exec.polls > 20_000 {
                run.out.violate(prop, "no-quiescence", "reqrep-router", "router keeps waking itself: 20000 polls without settling".into());
                break;
            }
        }
    }
    finish(run, opts)
}

fn finish(mut run: Run<'_>, opts: &ExecOpts) -> Outcome {
    let prop = run.prop;
    let sc = run.sc;
    let n_req = sc.n_req;
    let w = lock(&run.world);
    let alive = run.exec.alive();
    let checking = !run.stop;
    let mut any_fail_fired = false;
    for (i, s) in w.sinks.iter().enumerate() {
        if s.errored {
            any_fail_fired = true;
            if let Some(f) = sc.fails.iter().find(|f| f.sink == i) {
                run.out.fault(&format!("{}_sink_fail_{:?}", if i < n_req { "requestor" } else { "replier" }, f.op).to_lowercase());
            }
        }
    }
    // ---------- requests as seen by repliers ----------
    // accepted requests in router-accept order: (label, requestor)
    let mut accepted_reqs: Vec<(String, usize)> = vec![];
    let mut accepted_non_message: u64 = 0;
    for (sid, f) in &w.accepted {
        if *sid < n_req {
            match f {
                Frame::Message(m) => {
                    let l = String::from_utf8_lossy(&m.message).to_string();
                    if parse_req_label(&l).is_some() {
                        accepted_reqs.push((l, *sid));
                    } else {
                        accepted_non_message += 1;
                    }
                }
                _ => accepted_non_message += 1,
            }
        }
    }
    let _ = accepted_non_message;
    // every hand-over to a replier sink, in global order: (event idx, q, frame)
    let mut handovers: Vec<(usize, usize, &Frame)> = vec![];
    for q in 0..sc.n_rep {
        let s = &w.sinks[n_req + q];
        for (i, f) in s.handed.iter().enumerate() {
            handovers.push((s.handed_ev[i], q, f));
        }
    }
    handovers.sort_by_key(|h| h.0);
    let mut cid_of: BTreeMap<usize, String> = BTreeMap::new(); // requestor -> cid
    let mut seen: HashMap<String, usize> = HashMap::new();
    let mut last_seq: BTreeMap<usize, usize> = BTreeMap::new();
    let mut receivers_in_order: Vec<(usize, usize)> = vec![]; // (q, first ev) phase list
    if checking {
        for (ev, q, f) in &handovers {
            match f {
                Frame::Error(e) => {
                    // only a rejected replier may be handed an error frame
                    if e.code != REPLIER_ALREADY_BOUND {
                        run.out.violate(prop, "unexpected-error-frame", "reqrep", format!("replier {q} was handed error code {}", e.code));
                    }
                    continue;
                }
                Frame::Message(m) => {
                    let l = String::from_utf8_lossy(&m.message).to_string();
                    let Some((r, seq)) = parse_req_label(&l) else {
                        if m.message.len() > 1000 {
                            continue; // near-limit request: judged by C11 only for survival
                        }
                        run.out.violate(prop, "foreign-request", "reqrep", format!("replier {q} was handed a frame no requestor sent: {l:?}"));
                        continue;
                    };
                    if receivers_in_order.last().map(|x| x.0) != Some(*q) {
                        receivers_in_order.push((*q, *ev));
                    }
                    if !accepted_reqs.iter().any(|(al, ar)| *al == l && *ar == r) {
                        run.out.violate(prop, "foreign-request", "reqrep", format!("replier {q} was handed {l:?} which was never accepted from requestor {r}"));
                        continue;
                    }
                    *seen.entry(l.clone()).or_insert(0) += 1;
                    if seen[&l] > 1 {
                        run.out.violate(prop, "request-duplicated", "reqrep", format!("request {l} was handed to a replier {} times", seen[&l]));
                    }
                    if let Some(prev) = last_seq.get(&r) {
                        if seq <= *prev && seen[&l] == 1 {
                            run.out.violate(prop, "request-reordered", "reqrep", format!("requestor {r}: request {seq} handed to the replier after {prev}"));
                        }
                    }
                    last_seq.insert(r, seq);
                    // routing tag
                    let cid = m.headers.as_ref().and_then(|h| h.get("cid")).cloned();
                    match cid {
                        None => run.out.violate(prop, "request-untagged", "reqrep", format!("request {l} reached the replier without a routing tag")),
                        Some(c) => {
                            if let Some(prev) = cid_of.get(&r) {
                                if *prev != c {
                                    run.out.violate(prop, "routing-tag-unstable", "reqrep", format!("requestor {r} tagged {prev:?} then {c:?}"));
                                }
                            } else {
                                if let Some((other, _)) = cid_of.iter().find(|(_, v)| **v == c) {
                                    run.out.violate(prop, "routing-tag-forgeable", "reqrep", format!("requestors {other} and {r} share routing tag {c:?} (request {l})"));
                                }
                                cid_of.insert(r, c);
                            }
                        }
                    }
                    // everything else intact
                    if let Some(Frame::Message(orig)) = run.fed_requests.get(&l) {
                        let mut a = orig.headers.clone().unwrap_or_default();
                        a.remove("cid");
                        let mut b = m.headers.clone().unwrap_or_default();
                        b.remove("cid");
                        if a != b || orig.message != m.message {
                            run.out.violate(prop, "request-altered", "reqrep", format!("request {l}: headers/payload changed in transit: sent {a:?}, replier got {b:?}"));
                        }
                    }
                }
                other => {
                    run.out.violate(prop, "foreign-request", "reqrep", format!("replier {q} was handed a non-message frame {:?}", payload_str(other)));
                }
            }
        }
    }
    // a request the replier's sink refused to encode (it outgrew the frame limit when the routing
    // tag was added) has been offered once; offering it again, to this or to a later replier,
    // hands it over more than once
    if checking {
        let mut offered: HashMap<String, usize> = HashMap::new();
        for q in 0..sc.n_rep {
            for f in &w.sinks[n_req + q].refused_oversize {
                if let Frame::Message(m) = f {
                    let tag: String = String::from_utf8_lossy(&m.message[..m.message.len().min(12)]).to_string();
                    *offered.entry(tag).or_insert(0) += 1;
                }
            }
        }
        for (tag, n) in offered {
            run.out.probe("oversize_request_refused_by_replier_sink");
            if n > 1 {
                run.out.violate(prop, "request-duplicated", "reqrep-undeliverable-request-offered-again", format!("request {tag:?} exceeded the frame limit once tagged; it was offered to repliers {n} times"));
            }
        }
    }
    // ---------- single bound replier that stays bound: exactly once ----------
    let registered_reps: Vec<usize> = (0..sc.n_rep).filter(|q| run.rep_reg[*q]).collect();
    // A peer that sent frames of the wrong kind may be dropped by a correct server; it is owed
    // nothing, but every *other* peer's traffic must be unaffected.
    let hostile = run.hostile_rep.iter().any(|h| *h);
    if checking && alive && !run.closed && registered_reps.len() == 1 && !hostile {
        let q = registered_reps[0];
        let s = &w.sinks[n_req + q];
        if !s.errored && !run.rep_ended[q] {
            if let Some(bound) = run.rep_settled_at[q] {
                for (i, (l, r)) in accepted_reqs.iter().enumerate() {
                    if i >= bound && !seen.contains_key(l) && !run.hostile_req[*r] {
                        run.out.violate(prop, "request-lost", "reqrep-bound-replier", format!("request {l} was accepted (index {i}) after the replier's registration was processed (by index {bound}), the replier stayed bound, yet it never received it"));
                        break;
                    }
                }
            } else {
                run.out.violate(prop, "registration-not-adopted", "reqrep-replier", format!("replier {q}: registration still not processed at quiescence"));
            }
            if s.delivered < s.handed.len() {
                run.out.violate(prop, "unflushed-at-quiescence", "reqrep-replier-sink", format!("replier {q}: {} of {} requests never flushed although its transport accepts data", s.handed.len() - s.delivered, s.handed.len()));
            }
            if !w.streams[n_req + q].queue.is_empty() {
                run.out.violate(prop, "input-not-consumed", "reqrep-replier-stream", format!("replier {q}: {} replies still waiting in its stream at quiescence", w.streams[n_req + q].queue.len()));
            }
        }
    }
    // A replier that sent frames of the wrong kind may be dropped; if the router keeps it bound
    // (its stream object is still alive), it has to keep reading it: frames left waiting in the
    // stream of a bound replier at quiescence are a lost wake-up whoever the replier is.
    if checking && alive && !run.closed && registered_reps.len() == 1 && hostile {
        let q = registered_reps[0];
        let st = &w.streams[n_req + q];
        if !w.sinks[n_req + q].errored && !run.rep_ended[q] && !st.dropped && run.rep_settled_at[q].is_some() && !st.queue.is_empty() {
            run.out.violate(prop, "input-not-consumed", "reqrep-replier-stream-after-odd-frame", format!("replier {q} sent a frame of an unexpected kind and was kept bound, yet {} of its later frames are still waiting in its stream at quiescence", st.queue.len()));
        }
    }
    if checking && alive && !run.closed && !hostile {
        for r in 0..n_req {
            if run.req_reg[r] && !run.req_ended[r] && !w.streams[r].queue.is_empty() && !w.streams[r].dropped && !run.hostile_req[r] {
                // only demand consumption once the registration itself is known to be adopted
                run.out.violate(prop, "input-not-consumed", "reqrep-requestor-stream", format!("requestor {r}: {} requests still waiting in its stream at quiescence", w.streams[r].queue.len()));
            }
        }
    }
    // ---------- replies ----------
    // which emitted replies did the router actually take from the replier stream?
    let mut taken: HashMap<String, bool> = HashMap::new();
    for (sid, f) in &w.accepted {
        if *sid >= n_req {
            if let Frame::Message(m) = f {
                taken.insert(String::from_utf8_lossy(&m.message).to_string(), true);
            }
        }
    }
    // labels seen per requestor sink
    let mut got: Vec<HashMap<String, usize>> = vec![HashMap::new(); n_req];
    for r in 0..n_req {
        for f in &w.sinks[r].handed {
            *got[r].entry(payload_str(f)).or_insert(0) += 1;
        }
    }
    if checking {
        for e in &run.emitted {
            let was_taken = taken.contains_key(&e.label);
            for r in 0..n_req {
                let c = got[r].get(&e.label).cloned().unwrap_or(0);
                match e.target {
                    Some(t) if t == r => {
                        if c > 1 {
                            run.out.violate(prop, "reply-duplicated", "reqrep", format!("reply {} delivered {c} times to requestor {r}", e.label));
                        }
                        if c == 1 {
                            // intact, tag stripped
                            let f = w.sinks[r].handed.iter().find(|f| payload_str(f) == e.label).unwrap();
                            if Some(f) != e.expected.as_ref() {
                                run.out.violate(prop, "reply-altered", "reqrep", format!("reply {}: requestor {r} received {:?}, expected {:?}", e.label, f, e.expected));
                            }
                        }
                        // a requestor whose request stream has ended but whose sink works is half-closed,
                        // not gone: it is still connected in the direction replies travel
                        let sink_ok = run.req_reg[r] && !w.sinks[r].errored && !run.closed && !run.hostile_req[r];
                        if c == 0 && was_taken && sink_ok && alive && !hostile {
                            run.out.violate(
                                prop,
                                "reply-lost",
                                "reqrep",
                                format!("reply {} was taken from replier {} for requestor {r} (connected, healthy) and never handed to it", e.label, e.q),
                            );
                        }
                    }
                    _ => {
                        if c > 0 {
                            run.out.violate(
                                prop,
                                if e.target.is_some() { "reply-misrouted" } else { "ill-tagged-reply-delivered" },
                                "reqrep",
                                format!("reply {} (target {:?}) was handed to requestor {r}", e.label, e.target),
                            );
                        }
                    }
                }
            }
        }
        // nothing unexpected on requestor sinks
        for r in 0..n_req {
            for (l, _) in got[r].iter() {
                if !run.emitted.iter().any(|e| e.label == *l) {
                    run.out.violate(prop, "foreign-reply", "reqrep", format!("requestor {r} was handed {l:?} which no replier emitted"));
                }
            }
            let s = &w.sinks[r];
            if alive && !run.closed && run.req_reg[r] && !s.errored && !s.dropped && s.delivered < s.handed.len() {
                run.out.violate(prop, "unflushed-at-quiescence", "reqrep-requestor-sink", format!("requestor {r}: {} of {} replies never flushed although its transport accepts data", s.handed.len() - s.delivered, s.handed.len()));
            }
        }
    }
    // ---------- replier exclusivity / rejection / rebinding ----------
    if checking && !hostile {
        // phases: once another replier starts receiving, the previous one must have ended/failed before
        for win in receivers_in_order.windows(2) {
            let (prev, _) = win[0];
            let (next, _ev) = win[1];
            let prev_sink = &w.sinks[n_req + prev];
            if !run.rep_ended[prev] && !prev_sink.errored {
                run.out.violate(prop, "two-repliers-served", "reqrep", format!("replier {next} received requests while replier {prev} was still bound and healthy"));
            }
        }
        for w2 in 0..receivers_in_order.len() {
            for w3 in (w2 + 1)..receivers_in_order.len() {
                if receivers_in_order[w2].0 == receivers_in_order[w3].0 && w3 != w2 + 0 && (w2 + 1..w3).any(|m| receivers_in_order[m].0 != receivers_in_order[w2].0) {
                    run.out.violate(prop, "two-repliers-served", "reqrep-interleaved", format!("requests alternated between repliers {:?}", receivers_in_order.iter().map(|x| x.0).collect::<Vec<_>>()));
                }
            }
        }
        for q in 0..sc.n_rep {
            if !run.rep_reg[q] {
                continue;
            }
            let s = &w.sinks[n_req + q];
            if s.errored {
                continue;
            }
            let errs: Vec<&Frame> = s.handed.iter().filter(|f| matches!(f, Frame::Error(_))).collect();
            let reqs = s.handed.len() - errs.len();
            let rejected = !errs.is_empty();
            if rejected {
                run.out.probe("replier_rejected");
                if reqs > 0 {
                    run.out.violate(prop, "rejected-replier-served", "reqrep", format!("replier {q} received both a rejection and {reqs} requests"));
                }
                if errs.len() > 1 {
                    run.out.violate(prop, "rejection-duplicated", "reqrep", format!("replier {q} received {} error frames", errs.len()));
                }
                if run.rep_live_rival_at_reg[q] == Some(false) {
                    run.out.violate(prop, "rejected-without-rival", "reqrep", format!("replier {q} was rejected although no other replier was bound when it registered"));
                }
                if alive && !run.closed && (s.delivered < s.handed.len() || !s.closed) {
                    run.out.violate(
                        prop,
                        "rejection-not-delivered",
                        if s.dropped { "reqrep-rejected-sink-dropped" } else { "reqrep-rejected-sink-pending" },
                        format!("replier {q}: rejection frame flushed={} closed={} dropped={} at quiescence", s.delivered >= s.handed.len(), s.closed, s.dropped),
                    );
                }
            } else if alive && !run.closed {
                // not rejected: if a rival was certainly bound and stayed bound, it must have been rejected
                let rival_stayed = (0..sc.n_rep).any(|o| o != q && run.rep_reg[o] && run.rep_reg_order.iter().position(|x| *x == o) < run.rep_reg_order.iter().position(|x| *x == q) && !run.rep_ended[o] && !w.sinks[n_req + o].errored && w.sinks[n_req + o].handed.iter().all(|f| !matches!(f, Frame::Error(_))));
                if rival_stayed && run.rep_settled_at[q].is_some() {
                    if s.dropped && s.handed.is_empty() {
                        run.out.violate(prop, "rejection-not-delivered", "reqrep-rejected-sink-dropped-silently", format!("replier {q} registered while another replier stayed bound; it was dropped without being told"));
                    } else if !s.dropped {
                        run.out.violate(prop, "late-replier-not-rejected", "reqrep", format!("replier {q} registered while another replier stayed bound and was neither rejected nor closed"));
                    }
                }
                // sole live replier: must be served
                if run.rep_live_rival_at_reg[q] == Some(false) && !run.rep_ended[q] {
                    if let Some(bound) = run.rep_settled_at[q] {
                        // no other replier may have been live later either (it would have been rejected, not bound)
                        for (i, (l, r)) in accepted_reqs.iter().enumerate() {
                            if i >= bound && !seen.contains_key(l) && !run.hostile_req[*r] {
                                run.out.violate(prop, "request-lost", "reqrep-rebound-replier", format!("replier {q} registered with no rival and stayed; request {l} (accept index {i} >= {bound}) never reached it"));
                                break;
                            }
                        }
                    }
                }
            }
        }
    }
    // after hostile frames the topic must still work: requests fed afterwards reach the replier
    if checking && hostile && alive && !run.closed && run.req_after_hostile {
        run.out.probe("requests_after_hostile_frames");
    }
    if run.closed && !run.stop && alive {
        run.out.violate(prop, "shutdown-hang", "reqrep-router", format!("registration channel closed, every sink accepts data, router still pending after {} polls", run.exec.polls));
    }
    // ---------- evidence ----------
    let mut th = Hasher64::default();
    for e in &w.events {
        th.word(((e.kind as u64) << 32) | ((e.id as u64) << 16) | ((e.op as u64) << 8) | e.out as u64);
    }
    let mut fh = Hasher64::default();
    fh.word(th.0);
    for s in &w.sinks {
        fh.word(s.handed.len() as u64);
        fh.word(s.delivered as u64);
        for f in &s.handed {
            fh.bytes(payload_str(f).as_bytes());
            if let Frame::Message(m) = f {
                let mut hs: Vec<_> = m.headers.clone().unwrap_or_default().into_iter().collect();
                hs.sort();
                for (k, v) in hs {
                    fh.bytes(k.as_bytes());
                    fh.bytes(v.as_bytes());
                }
            }
        }
    }
    run.out.trace_hash = th.finish();
    run.out.full_hash = fh.finish();
    let pending_events = w.events.iter().filter(|e| e.out == OUT_PENDING && e.kind == 0).count();
    let delivered_replies = (0..n_req).map(|r| w.sinks[r].handed.len()).sum::<usize>();
    run.out.nontrivial = accepted_reqs.len() >= 1 && (delivered_replies >= 1 || any_fail_fired || run.closed || run.stop || hostile) && (pending_events > 0 || any_fail_fired || hostile || run.rep_ended.iter().any(|e| *e));
    run.out.probe_n("sink_pending_outcomes", pending_events as u64);
    run.out.probe_n("replies_delivered", delivered_replies as u64);
    if w.max_calls_in_a_poll > 0 {
        let e = run.out.probes.entry("max_peer_calls_in_one_poll".into()).or_insert(0);
        *e = (*e).max(w.max_calls_in_a_poll);
    }
    if sc.wake_driven {
        run.out.probe("wake_driven_runs");
    }
    if receivers_in_order.len() > 1 {
        run.out.probe("rebind_served");
    }
    if opts.want_log {
        for e in &w.events {
            let who = if e.kind == 2 {
                "router".to_string()
            } else {
                let role = if (e.id as usize) < n_req { format!("requestor{}", e.id) } else { format!("replier{}", e.id as usize - n_req) };
                format!("{role}.{}", if e.kind == 0 { "sink" } else { "stream" })
            };
            let op = match (e.kind, e.op) {
                (0, 0) => "poll_ready",
                (0, 1) => "start_send",
                (0, 2) => "poll_flush",
                (0, 3) => "poll_close",
                (_, 4) => "drop",
                (1, 0) => "poll_next",
                (2, _) => "poll",
                _ => "?",
            };
            let out = ["ready", "pending", "err", "item", "none", "item_err", "dropped"][e.out as usize];
            run.out.log.push(format!("{who} {op} -> {out}"));
        }
        for (i, s) in w.sinks.iter().enumerate() {
            run.out.log.push(format!(
                "sink{i}: handed={:?} delivered={} errored={} closed={} dropped={}",
                s.handed.iter().map(|f| { let p = payload_str(f); if p.len() > 60 { format!("{}..({} bytes)", &p[..20], p.len()) } else { p } }).collect::<Vec<_>>(),
                s.delivered,
                s.errored,
                s.closed,
                s.dropped
            ));
        }
        run.out.log.push(format!("emitted replies: {:?}", run.emitted.iter().map(|e| (e.label.clone(), e.target)).collect::<Vec<_>>()));
        run.out.log.push(format!("accepted requests: {:?}", accepted_reqs));
        run.out.log.push(format!("rep_settled_at={:?} rival_at_reg={:?}", run.rep_settled_at, run.rep_live_rival_at_reg));
    }
    drop(w);
    run.out
}

// ---------------------------------------------------------------------------------------------
// Families
// ---------------------------------------------------------------------------------------------

pub struct ReqRepFamily {
    pub name: &'static str,
    pub flags: RrFlags,
}

const BASE: RrFlags = RrFlags { fails: false, stream_errs: false, close: false, force_wake: None, partial: false, multi_replier: false, bad_tags: false, odd_frames: false, departures: false, large: false, crashes: false };

pub static RR_CLEAN: ReqRepFamily = ReqRepFamily { name: "reqrep-clean", flags: RrFlags { bad_tags: true, ..BASE } };
pub static RR_WAKE: ReqRepFamily = ReqRepFamily { name: "reqrep-wake", flags: RrFlags { bad_tags: true, stream_errs: true, departures: true, crashes: true, force_wake: Some(true), ..BASE } };
pub static RR_PARTIAL: ReqRepFamily = ReqRepFamily { name: "reqrep-partial-topology", flags: RrFlags { partial: true, departures: true, crashes: true, force_wake: Some(true), ..BASE } };
pub static RR_REPLIERS: ReqRepFamily = ReqRepFamily { name: "reqrep-repliers", flags: RrFlags { multi_replier: true, ..BASE } };
pub static RR_SHUTDOWN: ReqRepFamily = ReqRepFamily { name: "reqrep-shutdown", flags: RrFlags { close: true, multi_replier: true, departures: true, ..BASE } };
pub static RR_FAIL_RANDOM: ReqRepFamily = ReqRepFamily { name: "reqrep-fail-random", flags: RrFlags { fails: true, stream_errs: true, departures: true, crashes: true, multi_replier: true, ..BASE } };
pub static RR_FRAMES: ReqRepFamily = ReqRepFamily { name: "reqrep-frames", flags: RrFlags { odd_frames: true, bad_tags: true, ..BASE } };
pub static RR_FRAMES_REBIND: ReqRepFamily = ReqRepFamily { name: "reqrep-frames-rebind", flags: RrFlags { odd_frames: true, multi_replier: true, departures: true, ..BASE } };

impl Family for ReqRepFamily {
    fn name(&self) -> &'static str {
        self.name
    }
    fn engine(&self) -> &'static str {
        "R"
    }
    fn generate(&self, _property: &str, tier: Tier, _index: u64, _total: u64, rng: &mut Rng) -> Value {
        let mut flags = self.flags;
        flags.large = tier == Tier::Thorough && rng.chance(1, 4);
        serde_json::to_value(gen_script(rng, flags)).unwrap()
    }
    fn execute(&self, property: &str, body: &Value, opts: &ExecOpts) -> Outcome {
        let sc: RrScript = match serde_json::from_value(body.clone()) {
            Ok(s) => s,
            Err(e) => {
                let mut o = Outcome::default();
                o.inconclusive = true;
                o.log.push(format!("bad script: {e}"));
                return o;
            }
        };
        execute(property, &sc, opts)
    }
    fn shrink(&self, body: &Value) -> Vec<Value> {
        let Ok(sc) = serde_json::from_value::<RrScript>(body.clone()) else { return vec![] };
        shrink_script(&sc).into_iter().map(|s| serde_json::to_value(s).unwrap()).collect()
    }
    fn watchdog_ms(&self) -> u64 {
        10_000
    }
}

pub fn shrink_script(sc: &RrScript) -> Vec<RrScript> {
    let mut out = vec![];
    let n = sc.steps.len();
    let mut chunk = n / 2;
    while chunk >= 1 {
        let mut i = 0;
        while i + chunk <= n {
            let mut c = sc.clone();
            c.steps.drain(i..i + chunk);
            out.push(c);
            i += chunk;
        }
        chunk /= 2;
    }
    for (i, st) in sc.steps.iter().enumerate() {
        match st {
            RrStep::Request { r, n, forge } => {
                if *n > 1 {
                    let mut c = sc.clone();
                    c.steps[i] = RrStep::Request { r: *r, n: 1, forge: forge.clone() };
                    out.push(c);
                    if *n > 3 {
                        for m in [*n / 2, *n - 1] {
                            let mut c = sc.clone();
                            c.steps[i] = RrStep::Request { r: *r, n: m, forge: forge.clone() };
                            out.push(c);
                        }
                    }
                }
                if forge.is_some() {
                    let mut c = sc.clone();
                    c.steps[i] = RrStep::Request { r: *r, n: *n, forge: None };
                    out.push(c);
                }
            }
            RrStep::Reply { q, pick } if *pick != Pick::Oldest => {
                let mut c = sc.clone();
                c.steps[i] = RrStep::Reply { q: *q, pick: Pick::Oldest };
                out.push(c);
            }
            _ => {}
        }
    }
    for i in 0..sc.fails.len() {
        let mut c = sc.clone();
        c.fails.remove(i);
        out.push(c);
    }
    for (i, f) in sc.fails.iter().enumerate() {
        if f.k > 0 {
            let mut c = sc.clone();
            c.fails[i].k = f.k - 1;
            out.push(c);
        }
    }
    if sc.wake_driven {
        let mut c = sc.clone();
        c.wake_driven = false;
        out.push(c);
    }
    for (i, b) in sc.boundaries.iter().enumerate() {
        if *b > 1 {
            let mut c = sc.clone();
            c.boundaries[i] = 1;
            out.push(c);
        }
    }
    for (i, g) in sc.gates.iter().enumerate() {
        if !*g {
            let mut c = sc.clone();
            c.gates[i] = true;
            out.push(c);
        }
    }
    // drop the last replier if unused
    if sc.n_rep > 0 {
        let last = sc.n_rep - 1;
        let sink = sc.n_req + last;
        let used = sc.steps.iter().any(|s| match s {
            RrStep::RegRep(q) | RrStep::EndRep(q) | RrStep::CrashRep(q) | RrStep::RepErr(q) => *q == last,
            RrStep::Reply { q, .. } | RrStep::ReplyBad { q, .. } | RrStep::RepFrame { q, .. } => *q == last,
            RrStep::Gate { sink: s, .. } => *s == sink,
            _ => false,
        }) || sc.fails.iter().any(|f| f.sink == sink);
        if !used {
            let mut c = sc.clone();
            c.n_rep -= 1;
            c.boundaries.remove(sink);
            c.gates.remove(sink);
            out.push(c);
        }
    }
    out
}
