//! R-engine, pub/sub: the real `selium_server::topic::pubsub::Topic` (with the real `FanoutMany`,
//! `StreamMap` and registration channel) against scripted publishers and subscribers.
//!
//! One executor serves C01 (fan-out model), C08 (failing peers), C09 (bounded work, wake-driven
//! liveness) and C16 (shutdown); the generator flags decide which faults a script may contain.

use super::mocks::*;
use crate::core::*;
use crate::rng::{Hasher64, Rng};
use bytes::Bytes;
use selium_protocol::{Frame, MessagePayload};
use selium_server::topic::pubsub;
use selium_std::errors::SeliumError;
use serde::{Deserialize, Serialize};
use serde_json::Value;

#[derive(Clone, Debug, Serialize, Deserialize, PartialEq)]
#[serde(rename_all = "snake_case")]
pub enum PsStep {
    RegPub(usize),
    RegSub(usize),
    Feed { p: usize, n: usize },
    FeedErr(usize),
    EndPub(usize),
    Gate { s: usize, open: bool },
    /// a spurious wake-up of the router task (always legal)
    Wake,
    /// the server closes the registration channel (shutdown)
    Close,
    /// the server drops its sender without closing explicitly
    DropSender,
}

#[derive(Clone, Debug, Serialize, Deserialize)]
pub struct SinkFail {
    pub s: usize,
    pub op: Op,
    pub k: usize,
    /// only this operation fails (persistently); the sink's other operations keep succeeding
    #[serde(default)]
    pub only_op: bool,
}

#[derive(Clone, Debug, Serialize, Deserialize)]
pub struct PsScript {
    pub wake_driven: bool,
    pub n_pubs: usize,
    pub boundaries: Vec<usize>,
    /// initial gate state per subscriber
    pub gates: Vec<bool>,
    #[serde(default)]
    pub fails: Vec<SinkFail>,
    pub steps: Vec<PsStep>,
}

fn msg(p: usize, seq: usize) -> Frame {
    if seq % 7 == 6 {
        Frame::BatchMessage(Bytes::from(format!("batch:p{p}:{seq}")))
    } else {
        Frame::Message(MessagePayload {
            headers: if seq % 5 == 4 {
                let mut h = std::collections::HashMap::new();
                h.insert("k".to_string(), format!("{p}.{seq}"));
                Some(h)
            } else {
                None
            },
            message: Bytes::from(format!("p{p}:{seq}")),
        })
    }
}

fn label(f: &Frame) -> String {
    match f {
        Frame::Message(m) => String::from_utf8_lossy(&m.message).to_string(),
        Frame::BatchMessage(b) => String::from_utf8_lossy(b).to_string(),
        other => format!("{other:?}"),
    }
}

#[derive(Clone, Copy, Default)]
pub struct GenFlags {
    pub fails: bool,
    pub two_fails: bool,
    pub stream_errs: bool,
    pub close: bool,
    pub force_wake: Option<bool>,
    pub partial: bool,
    /// thorough tier: a quarter of the runs use larger topologies and longer scripts
    pub large: bool,
}

pub fn gen_script(rng: &mut Rng, flags: GenFlags) -> PsScript {
    let n_pubs = if flags.partial {
        *rng.pick(&[0usize, 0, 1, 1, 2])
    } else {
        *rng.pick(&[0usize, 1, 1, 1, 1, 2, 2, 2, 3, 3])
    };
    let n_subs = if flags.partial {
        *rng.pick(&[0usize, 0, 1, 2])
    } else if flags.large {
        rng.usize(3, 8)
    } else {
        *rng.pick(&[0usize, 1, 1, 1, 2, 2, 2, 3, 3, 4])
    };
    let n_pubs = if flags.large && !flags.partial { rng.usize(2, 5) } else { n_pubs };
    let boundaries: Vec<usize> = (0..n_subs).map(|_| rng.usize(1, 4)).collect();
    let gates: Vec<bool> = (0..n_subs).map(|_| !rng.chance(1, 4)).collect();
    let wake_driven = flags.force_wake.unwrap_or_else(|| rng.chance(1, 2));
    let mut steps = vec![];
    let mut reg_pub = vec![false; n_pubs];
    let mut reg_sub = vec![false; n_subs];
    let mut ended = vec![false; n_pubs];
    let mut gate = gates.clone();
    let mut budget = if flags.large { rng.usize(20, 120) } else { rng.usize(0, 40) };
    let upfront = rng.chance(1, 2);
    let mut burst_done = false;
    if upfront {
        let mut regs: Vec<PsStep> = (0..n_pubs).map(PsStep::RegPub).chain((0..n_subs).map(PsStep::RegSub)).collect();
        rng.shuffle(&mut regs);
        for r in regs {
            match r {
                PsStep::RegPub(p) => reg_pub[p] = true,
                PsStep::RegSub(s) => reg_sub[s] = true,
                _ => {}
            }
            steps.push(r);
        }
    }
    let len = if flags.large { rng.usize(40, 200) } else { rng.usize(3, 60) };
    for _ in 0..len {
        let mut choices: Vec<(u64, u8)> = vec![];
        if reg_pub.iter().any(|r| !r) {
            choices.push((4, 0));
        }
        if reg_sub.iter().any(|r| !r) {
            choices.push((4, 1));
        }
        if n_pubs > 0 && budget > 0 && ended.iter().any(|e| !e) {
            choices.push((12, 2));
        }
        if n_subs > 0 {
            choices.push((7, 3));
        }
        if n_pubs > 0 && ended.iter().any(|e| !e) {
            choices.push((2, 4));
        }
        choices.push((1, 5));
        if flags.stream_errs && n_pubs > 0 {
            choices.push((2, 6));
        }
        let total: u64 = choices.iter().map(|c| c.0).sum();
        let mut r = rng.below(total);
        let mut pick = 5u8;
        for (w, c) in &choices {
            if r < *w {
                pick = *c;
                break;
            }
            r -= w;
        }
        match pick {
            0 => {
                let c: Vec<usize> = (0..n_pubs).filter(|p| !reg_pub[*p]).collect();
                let p = *rng.pick(&c);
                reg_pub[p] = true;
                steps.push(PsStep::RegPub(p));
            }
            1 => {
                let c: Vec<usize> = (0..n_subs).filter(|s| !reg_sub[*s]).collect();
                let s = *rng.pick(&c);
                reg_sub[s] = true;
                steps.push(PsStep::RegSub(s));
            }
            2 => {
                let c: Vec<usize> = (0..n_pubs).filter(|p| !ended[*p]).collect();
                let p = *rng.pick(&c);
                // now and then one publisher has a long run of items ready at once (a burst far
                // larger than any per-step bound a router might apply to itself)
                if !burst_done && rng.chance(1, 80) {
                    burst_done = true;
                    steps.push(PsStep::Feed { p, n: rng.usize(100, 400) });
                    continue;
                }
                let n = rng.usize(1, 3).min(budget);
                budget -= n;
                steps.push(PsStep::Feed { p, n });
            }
            3 => {
                let s = rng.usize(0, n_subs - 1);
                gate[s] = !gate[s];
                steps.push(PsStep::Gate { s, open: gate[s] });
            }
            4 => {
                let c: Vec<usize> = (0..n_pubs).filter(|p| !ended[*p]).collect();
                let p = *rng.pick(&c);
                ended[p] = true;
                steps.push(PsStep::EndPub(p));
            }
            6 => {
                let p = rng.usize(0, n_pubs - 1);
                steps.push(PsStep::FeedErr(p));
            }
            _ => steps.push(PsStep::Wake),
        }
    }
    // register whatever is left (most of the time), so late registration also happens
    for p in 0..n_pubs {
        if !reg_pub[p] && rng.chance(3, 4) {
            steps.push(PsStep::RegPub(p));
        }
    }
    for s in 0..n_subs {
        if !reg_sub[s] && rng.chance(3, 4) {
            steps.push(PsStep::RegSub(s));
        }
    }
    // biased tail: the last publishers end while some subscriber cannot flush
    if n_pubs > 0 && n_subs > 0 && rng.chance(1, 2) {
        let s = rng.usize(0, n_subs - 1);
        steps.push(PsStep::Gate { s, open: false });
        let p = rng.usize(0, n_pubs - 1);
        if !ended[p] {
            steps.push(PsStep::Feed { p, n: rng.usize(1, 2) });
        }
        let mut order: Vec<usize> = (0..n_pubs).collect();
        rng.shuffle(&mut order);
        for p in order {
            if !ended[p] {
                ended[p] = true;
                steps.push(PsStep::EndPub(p));
            }
        }
        if rng.chance(1, 2) {
            steps.push(PsStep::Wake);
        }
    }
    if flags.close {
        let pos = rng.usize(0, steps.len());
        let step = if rng.chance(1, 5) { PsStep::DropSender } else { PsStep::Close };
        steps.insert(pos, step);
    }
    let mut fails = vec![];
    if flags.fails && n_subs > 0 {
        let nf = if flags.two_fails && n_subs > 1 && rng.chance(1, 3) { 2 } else { 1 };
        let mut cands: Vec<usize> = (0..n_subs).collect();
        rng.shuffle(&mut cands);
        for s in cands.into_iter().take(nf) {
            fails.push(SinkFail { s, op: *rng.pick(&Op::ALL), k: rng.usize(0, 6), only_op: rng.chance(1, 3) });
        }
    }
    PsScript { wake_driven, n_pubs, boundaries, gates, fails, steps }
}

struct Run<'a> {
    prop: &'a str,
    sc: &'a PsScript,
    world: Shared,
    exec: Exec,
    tx: Option<futures::channel::mpsc::Sender<pubsub::Socket<Frame, SeliumError>>>,
    seqs: Vec<usize>,
    ended: Vec<bool>,
    pub_reg: Vec<bool>,
    sub_reg: Vec<bool>,
    /// accepted-count bound by which each subscriber's registration must have been processed
    settled_at: Vec<Option<usize>>,
    closed: bool,
    out: Outcome,
    stop: bool,
}

impl<'a> Run<'a> {
    fn poll(&mut self) {
        if !self.exec.alive() {
            return;
        }
        // consumable work at the start of this poll (for the bounded-work oracle)
        let (avail, peers) = {
            let w = lock(&self.world);
            let avail: usize = w.streams.iter().map(|s| s.queue.len() + s.ended as usize).sum::<usize>();
            (avail + 2, w.sinks.len() + w.streams.len() + 1)
        };
        let r = self.exec.poll_once();
        let (calls, sink_pending, accepted) = {
            let w = lock(&self.world);
            (w.calls_this_poll, w.any_sink_pending_this_poll(), w.accepted.len())
        };
        match r {
            PollOutcome::Pending => {
                // A router that parks (Pending, not self-woken) in a poll in which no sink held it
                // back has nothing left it could do, so every registration queued before this poll
                // has been processed (otherwise it sleeps on undone work, which C09 forbids).
                if !sink_pending && !self.exec.is_woken() {
                    for s in 0..self.sub_reg.len() {
                        if self.sub_reg[s] && self.settled_at[s].is_none() {
                            self.settled_at[s] = Some(accepted);
                        }
                    }
                }
            }
            PollOutcome::Ready => {
                self.out.probe("router_completed");
                for s in 0..self.sub_reg.len() {
                    if self.sub_reg[s] && self.settled_at[s].is_none() {
                        self.settled_at[s] = Some(accepted);
                    }
                }
                if !self.closed {
                    self.out.violate(
                        self.prop,
                        "router-finished-unasked",
                        "ready-without-close",
                        "router future completed although the registration channel is open".into(),
                    );
                    self.stop = true;
                }
            }
            PollOutcome::Panicked { location, message } => {
                let hard = lock(&self.world).hard_limit_hit.clone();
                if let Some(h) = hard {
                    self.out.violate(
                        self.prop,
                        "spin-inside-poll",
                        "pubsub-router",
                        format!("router did not yield: {h}"),
                    );
                } else {
                    self.out.violate(
                        self.prop,
                        "router-panic",
                        &format!("panic@{location}"),
                        format!("pub/sub router panicked at {location}: {message}"),
                    );
                }
                self.stop = true;
            }
            PollOutcome::AlreadyDone => {}
        }
        let budget = 8 * (avail as u64 + 1) * (peers as u64 + 1);
        if calls > budget && !self.stop {
            self.out.violate(
                self.prop,
                "unbounded-work-in-poll",
                "pubsub-router",
                format!("one poll made {calls} peer calls with only {avail} consumable inputs and {peers} peers (budget {budget})"),
            );
        }
    }

    fn maybe_poll(&mut self) {
        if self.stop {
            return;
        }
        if !self.sc.wake_driven || self.exec.is_woken() {
            self.poll();
        }
    }

    fn step(&mut self, st: &PsStep) {
        match st {
            PsStep::RegPub(p) => {
                if *p >= self.pub_reg.len() || self.pub_reg[*p] {
                    return;
                }
                if let Some(tx) = self.tx.as_mut() {
                    let stream = MockStream { world: self.world.clone(), id: *p };
                    if tx.try_send(pubsub::Socket::Stream(Box::pin(stream))).is_ok() {
                        self.pub_reg[*p] = true;
                    }
                }
            }
            PsStep::RegSub(s) => {
                if *s >= self.sub_reg.len() || self.sub_reg[*s] {
                    return;
                }
                if let Some(tx) = self.tx.as_mut() {
                    let sink = MockSink { world: self.world.clone(), id: *s };
                    if tx.try_send(pubsub::Socket::Sink(Box::pin(sink))).is_ok() {
                        self.sub_reg[*s] = true;
                        if lock(&self.world).streams.iter().any(|x| !x.queue.is_empty()) {
                            self.out.probe("registration_while_items_queued");
                        }
                    }
                }
            }
            PsStep::Feed { p, n } => {
                if *p >= self.seqs.len() || self.ended[*p] {
                    return;
                }
                for _ in 0..*n {
                    let f = msg(*p, self.seqs[*p]);
                    self.seqs[*p] += 1;
                    lock(&self.world).feed(*p, Ok(f));
                }
            }
            PsStep::FeedErr(p) => {
                if *p >= self.seqs.len() || self.ended[*p] {
                    return;
                }
                lock(&self.world).feed(*p, Err(()));
                self.out.fault("publisher_stream_error");
            }
            PsStep::EndPub(p) => {
                if *p >= self.seqs.len() || self.ended[*p] {
                    return;
                }
                self.ended[*p] = true;
                let mut w = lock(&self.world);
                w.end_stream(*p);
                let all_ended = self.ended.iter().zip(self.pub_reg.iter()).all(|(e, r)| *e || !*r);
                let flush_blocked = w.sinks.iter().any(|s| !s.gate_open && !s.dropped && s.handed.len() > s.delivered);
                drop(w);
                self.out.fault("publisher_stream_end");
                if all_ended && flush_blocked {
                    self.out.probe("last_publisher_ends_with_flush_blocked");
                }
            }
            PsStep::Gate { s, open } => {
                if *s >= self.sub_reg.len() {
                    return;
                }
                let woke = lock(&self.world).set_gate(*s, *open);
                if !*open {
                    self.out.fault("subscriber_backpressure");
                }
                if woke {
                    self.out.probe("sink_wakeup_delivered");
                }
            }
            PsStep::Wake => {
                self.exec.flag.woken.store(true, std::sync::atomic::Ordering::SeqCst);
                self.out.fault("spurious_wake");
            }
            PsStep::Close => {
                if let Some(tx) = self.tx.as_mut() {
                    // the way Server::shutdown does it: through the server's `topic::Sender`
                    // wrapper, on the topic map's copy, while another copy (here: the harness's
                    // own, standing for a registration in flight) is still alive
                    selium_server::topic::Sender::<Frame, SeliumError>::Pubsub(tx.clone()).close_channel();
                    self.closed = true;
                    self.out.fault("registration_channel_closed");
                }
            }
            PsStep::DropSender => {
                if self.tx.take().is_some() {
                    self.closed = true;
                    self.out.fault("registration_sender_dropped");
                }
            }
        }
    }
}

pub fn execute(prop: &str, sc: &PsScript, opts: &ExecOpts) -> Outcome {
    let world = World::new_shared();
    {
        let mut w = lock(&world);
        for s in 0..sc.boundaries.len() {
            let id = w.add_sink(sc.boundaries[s], *sc.gates.get(s).unwrap_or(&true));
            debug_assert_eq!(id, s);
        }
        for f in &sc.fails {
            if f.s < w.sinks.len() {
                w.sinks[f.s].fail_at = Some((f.op, f.k));
                w.sinks[f.s].fail_sticky = !f.only_op;
            }
        }
        for _ in 0..sc.n_pubs {
            w.add_stream();
        }
    }
    let (topic, tx) = pubsub::Topic::<Frame, SeliumError>::pair();
    let exec = Exec::new(topic, world.clone());
    let n_subs = sc.boundaries.len();
    let mut run = Run {
        prop,
        sc,
        world: world.clone(),
        exec,
        tx: Some(tx),
        seqs: vec![0; sc.n_pubs],
        ended: vec![false; sc.n_pubs],
        pub_reg: vec![false; sc.n_pubs],
        sub_reg: vec![false; n_subs],
        settled_at: vec![None; n_subs],
        closed: false,
        out: Outcome::default(),
        stop: false,
    };
    run.maybe_poll();
    for st in &sc.steps {
        if run.stop {
            break;
        }
        run.step(st);
        run.maybe_poll();
        run.out.steps += 1;
    }
    // ---- quiescence: publishers have stopped; every subscriber becomes able to accept data ----
    if !run.stop {
        for s in 0..n_subs {
            lock(&world).set_gate(s, true);
        }
        let mut spins = 0;
        loop {
            if run.stop || !run.exec.alive() {
                break;
            }
            if run.exec.is_woken() {
                run.poll();
            } else if !sc.wake_driven && spins < 3 {
                // eager executor: a few unconditional polls
                run.poll();
                spins += 1;
            } else {
                break;
            }
            if run.exec.polls > 20_000 {
                run.out.violate(prop, "no-quiescence", "pubsub-router", "router keeps waking itself: 20000 polls without settling".into());
                break;
            }
        }
    }
    finish(run, opts)
}

fn finish(mut run: Run<'_>, opts: &ExecOpts) -> Outcome {
    let prop = run.prop;
    let sc = run.sc;
    let w = lock(&run.world);
    let accepted: Vec<&Frame> = w.accepted.iter().map(|(_, f)| f).collect();
    let n_acc = accepted.len();
    let mut any_fail_fired = false;
    for (s, st) in w.sinks.iter().enumerate() {
        if st.errored {
            any_fail_fired = true;
        }
        if !run.sub_reg[s] {
            if !st.handed.is_empty() {
                run.out.violate(prop, "delivery-to-unregistered", "pubsub", format!("sink {s} was never registered but received {} items", st.handed.len()));
            }
            continue;
        }
        if st.errored {
            let f = sc.fails.iter().find(|f| f.s == s);
            if let Some(f) = f {
                run.out.fault(&format!("subscriber_fail_{:?}", f.op).to_lowercase());
            }
            continue; // a failed peer is owed nothing
        }
        if run.stop {
            continue; // the router died; already reported
        }
        let h = &st.handed;
        // (a) contiguous run of the accept order
        let mut k = None;
        if let Some(first) = h.first() {
            match accepted.iter().position(|a| *a == first) {
                None => {
                    run.out.violate(prop, "foreign-item", "pubsub", format!("subscriber {s} was handed {:?} which no publisher of this topic sent", label(first)));
                }
                Some(k0) => {
                    k = Some(k0);
                    for (i, item) in h.iter().enumerate() {
                        let exp = accepted.get(k0 + i);
                        if exp != Some(&item) {
                            let tag = if h[..i].contains(item) {
                                "duplicate"
                            } else if accepted[..(k0 + i).min(n_acc)].contains(&item) {
                                "reordered"
                            } else if accepted.contains(&item) {
                                "skipped"
                            } else {
                                "foreign-item"
                            };
                            run.out.violate(
                                prop,
                                tag,
                                "pubsub",
                                format!(
                                    "subscriber {s}: position {i} holds {:?}, the accept order has {:?} there (run starts at accept index {k0})",
                                    label(item),
                                    exp.map(|e| label(e))
                                ),
                            );
                            break;
                        }
                    }
                }
            }
        }
        // registration must have been processed by the settle point
        if let (Some(k0), Some(bound)) = (k, run.settled_at[s]) {
            if k0 > bound {
                run.out.violate(
                    prop,
                    "missed-after-registration",
                    "pubsub",
                    format!("subscriber {s}: registration was processed by accept index {bound} but its run starts at {k0}"),
                );
            }
        }
        // (c) at quiescence nothing accepted is left undelivered or unflushed
        let expect_end = n_acc;
        let have_end = match k {
            Some(k0) => k0 + h.len(),
            None => run.settled_at[s].unwrap_or(n_acc),
        };
        if k.is_none() {
            // nothing handed: everything accepted must predate the settle point
            if let Some(bound) = run.settled_at[s] {
                if n_acc > bound {
                    run.out.violate(
                        prop,
                        "undelivered-at-quiescence",
                        "pubsub-never-handed",
                        format!("subscriber {s} was registered (processed by accept index {bound}) and stayed healthy, {} items were accepted afterwards, none was handed to it", n_acc - bound),
                    );
                }
            } else if n_acc > 0 && run.exec.alive() {
                // never settled although the run quiesced: registration not adopted
                run.out.violate(prop, "registration-not-adopted", "pubsub", format!("subscriber {s}: registration still not processed at quiescence"));
            }
        } else if have_end < expect_end {
            run.out.violate(
                prop,
                "undelivered-at-quiescence",
                "pubsub-tail",
                format!("subscriber {s}: {} accepted items were never handed to it (has {}..{}, accepted {})", expect_end - have_end, k.unwrap(), have_end, n_acc),
            );
        }
        if st.delivered < st.handed.len() {
            run.out.violate(
                prop,
                "unflushed-at-quiescence",
                if st.dropped { "pubsub-dropped-unflushed" } else { "pubsub-flush-never-completed" },
                format!(
                    "subscriber {s}: {} of {} handed items were never covered by a successful flush although its transport accepts data (dropped={}, router_alive={})",
                    st.handed.len() - st.delivered,
                    st.handed.len(),
                    st.dropped,
                    run.exec.alive()
                ),
            );
        }
    }
    // a live router that went to sleep while a registered publisher still has items ready
    // sleeps on undone work: every subscriber accepts data now, nothing holds it back
    if !run.closed && !run.stop && run.exec.alive() {
        for (p, st) in w.streams.iter().enumerate() {
            if run.pub_reg[p] && !st.dropped && !st.queue.is_empty() {
                run.out.violate(prop, "input-not-consumed", "pubsub-publisher-stream", format!("publisher {p}: {} items still waiting in its stream at quiescence although every subscriber accepts data", st.queue.len()));
                break;
            }
        }
    }
    // shutdown: the router must have terminated
    if run.closed && !run.stop && run.exec.alive() {
        run.out.violate(prop, "shutdown-hang", "pubsub-router", format!("registration channel closed, every subscriber accepts data, router still pending after {} polls", run.exec.polls));
    }
    // ---- evidence ----
    let mut th = Hasher64::default();
    let mut fh = Hasher64::default();
    for e in &w.events {
        th.word(((e.kind as u64) << 32) | ((e.id as u64) << 16) | ((e.op as u64) << 8) | e.out as u64);
    }
    fh.word(th.0);
    for s in &w.sinks {
        fh.word(s.handed.len() as u64);
        fh.word(s.delivered as u64);
        for f in &s.handed {
            fh.bytes(label(f).as_bytes());
        }
    }
    for (sid, f) in &w.accepted {
        fh.word(*sid as u64);
        fh.bytes(label(f).as_bytes());
    }
    run.out.trace_hash = th.finish();
    run.out.full_hash = fh.finish();
    let pending_events = w.events.iter().filter(|e| e.out == OUT_PENDING && e.kind == 0).count();
    let n_subs_reg = run.sub_reg.iter().filter(|r| **r).count();
    run.out.nontrivial = n_acc >= 2 && n_subs_reg >= 1 && (pending_events > 0 || w.streams.iter().any(|s| s.none_returned > 0) || any_fail_fired);
    run.out.probe_n("sink_pending_outcomes", pending_events as u64);
    if w.max_calls_in_a_poll > 0 {
        let e = run.out.probes.entry("max_peer_calls_in_one_poll".into()).or_insert(0);
        *e = (*e).max(w.max_calls_in_a_poll);
    }
    if sc.wake_driven {
        run.out.probe("wake_driven_runs");
    }
    if opts.want_log {
        for e in &w.events {
            let kind = ["sink", "stream", "router"][e.kind as usize];
            let op = match (e.kind, e.op) {
                (0, 0) => "poll_ready",
                (0, 1) => "start_send",
                (0, 2) => "poll_flush",
                (0, 3) => "poll_close",
                (_, 4) => "drop",
                (1, 0) => "poll_next",
                (2, _) => "poll",
                _ => "?",
            };
            let out = ["ready", "pending", "err", "item", "none", "item_err", "dropped"][e.out as usize];
            run.out.log.push(format!("{kind}{} {op} -> {out}", e.id));
        }
        run.out.log.push(format!("accepted: {:?}", w.accepted.iter().map(|(_, f)| label(f)).collect::<Vec<_>>()));
        for (i, s) in w.sinks.iter().enumerate() {
            run.out.log.push(format!(
                "sink{i}: handed={:?} delivered={} errored={} dropped={} settled_at={:?}",
                s.handed.iter().map(label).collect::<Vec<_>>(),
                s.delivered,
                s.errored,
                s.dropped,
                run.settled_at[i]
            ));
        }
    }
    drop(w);
    run.out
}

// ---------------------------------------------------------------------------------------------
// Families
// ---------------------------------------------------------------------------------------------

pub struct PubSubFamily {
    pub name: &'static str,
    pub flags: GenFlags,
}

pub static PS_CLEAN: PubSubFamily = PubSubFamily { name: "pubsub-clean", flags: GenFlags { fails: false, two_fails: false, stream_errs: false, close: false, force_wake: None, partial: false, large: false } };
pub static PS_WAKE: PubSubFamily = PubSubFamily { name: "pubsub-wake", flags: GenFlags { fails: false, two_fails: false, stream_errs: true, close: false, force_wake: Some(true), partial: false, large: false } };
pub static PS_PARTIAL: PubSubFamily = PubSubFamily { name: "pubsub-partial-topology", flags: GenFlags { fails: false, two_fails: false, stream_errs: true, close: false, force_wake: Some(true), partial: true, large: false } };
pub static PS_SHUTDOWN: PubSubFamily = PubSubFamily { name: "pubsub-shutdown", flags: GenFlags { fails: false, two_fails: false, stream_errs: false, close: true, force_wake: None, partial: false, large: false } };
pub static PS_SHUTDOWN_FAIL: PubSubFamily = PubSubFamily { name: "pubsub-shutdown-with-failures", flags: GenFlags { fails: true, two_fails: true, stream_errs: true, close: true, force_wake: None, partial: false, large: false } };
pub static PS_FAIL_RANDOM: PubSubFamily = PubSubFamily { name: "pubsub-fail-random", flags: GenFlags { fails: true, two_fails: true, stream_errs: true, close: false, force_wake: None, partial: false, large: false } };

impl Family for PubSubFamily {
    fn name(&self) -> &'static str {
        self.name
    }
    fn engine(&self) -> &'static str {
        "R"
    }
    fn generate(&self, _property: &str, tier: Tier, _index: u64, _total: u64, rng: &mut Rng) -> Value {
        let mut flags = self.flags;
        flags.large = tier == Tier::Thorough && rng.chance(1, 4);
        serde_json::to_value(gen_script(rng, flags)).unwrap()
    }
    fn execute(&self, property: &str, body: &Value, opts: &ExecOpts) -> Outcome {
        let sc: PsScript = match serde_json::from_value(body.clone()) {
            Ok(s) => s,
            Err(e) => {
                let mut o = Outcome::default();
                o.inconclusive = true;
                o.log.push(format!("bad script: {e}"));
                return o;
            }
        };
        execute(property, &sc, opts)
    }
    fn shrink(&self, body: &Value) -> Vec<Value> {
        let Ok(sc) = serde_json::from_value::<PsScript>(body.clone()) else { return vec![] };
        shrink_script(&sc).into_iter().map(|s| serde_json::to_value(s).unwrap()).collect()
    }
    fn watchdog_ms(&self) -> u64 {
        10_000
    }
}

pub fn shrink_script(sc: &PsScript) -> Vec<PsScript> {
    let mut out = vec![];
    let n = sc.steps.len();
    // drop chunks of steps, large to small
    let mut chunk = n / 2;
    while chunk >= 1 {
        let mut i = 0;
        while i + chunk <= n {
            let mut c = sc.clone();
            c.steps.drain(i..i + chunk);
            out.push(c);
            i += chunk;
        }
        chunk /= 2;
    }
    // shrink feed counts
    for (i, st) in sc.steps.iter().enumerate() {
        if let PsStep::Feed { p, n } = st {
            if *n > 1 {
                let mut c = sc.clone();
                c.steps[i] = PsStep::Feed { p: *p, n: 1 };
                out.push(c);
                if *n > 3 {
                    for m in [*n / 2, *n - 1] {
                        let mut c = sc.clone();
                        c.steps[i] = PsStep::Feed { p: *p, n: m };
                        out.push(c);
                    }
                }
            }
        }
    }
    // drop fault entries
    for i in 0..sc.fails.len() {
        let mut c = sc.clone();
        c.fails.remove(i);
        out.push(c);
    }
    for (i, f) in sc.fails.iter().enumerate() {
        if f.k > 0 {
            let mut c = sc.clone();
            c.fails[i].k = f.k - 1;
            out.push(c);
        }
    }
    // simpler configuration
    if sc.wake_driven {
        let mut c = sc.clone();
        c.wake_driven = false;
        out.push(c);
    }
    for (i, b) in sc.boundaries.iter().enumerate() {
        if *b > 1 {
            let mut c = sc.clone();
            c.boundaries[i] = 1;
            out.push(c);
        }
    }
    for (i, g) in sc.gates.iter().enumerate() {
        if !*g {
            let mut c = sc.clone();
            c.gates[i] = true;
            out.push(c);
        }
    }
    // remove the last subscriber / publisher if unused
    if let Some(last) = sc.boundaries.len().checked_sub(1) {
        let used = sc.steps.iter().any(|s| matches!(s, PsStep::RegSub(x) | PsStep::Gate { s: x, .. } if *x == last)) || sc.fails.iter().any(|f| f.s == last);
        if !used {
            let mut c = sc.clone();
            c.boundaries.pop();
            c.gates.pop();
            out.push(c);
        }
    }
    if sc.n_pubs > 0 {
        let last = sc.n_pubs - 1;
        let used = sc.steps.iter().any(|s| matches!(s, PsStep::RegPub(x) | PsStep::Feed { p: x, .. } | PsStep::EndPub(x) | PsStep::FeedErr(x) if *x == last));
        if !used {
            let mut c = sc.clone();
            c.n_pubs -= 1;
            out.push(c);
        }
    }
    out
}
