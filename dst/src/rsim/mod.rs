//! R — router-sim: the real topic routers against scripted peers and a harness-owned executor.
pub mod mocks;
pub mod pubsub;
pub mod reqrep;
pub mod enumfail;
