//! C08 fault enumeration: the space of fault *placements* (which peer, at which operation, at which
//! message index; which stream errs or ends at which index) is listed completely; each point is
//! run under seeded ready/pending schedules of the healthy peers.

use super::mocks::Op;
use super::pubsub::{self, PsScript, PsStep, SinkFail};
use super::reqrep::{self, Pick, RrFail, RrScript, RrStep};
use crate::core::*;
use crate::rng::Rng;
use serde_json::Value;

// ------------------------------------------------------------------------------------------
// pub/sub
// ------------------------------------------------------------------------------------------

#[derive(Clone, Copy, Debug)]
pub enum PsPoint {
    /// subscriber `pos` of `n` fails at `op` once `k` messages were handed to it
    Sink { n: usize, pos: usize, op: Op, k: usize, only_op: bool },
    /// publisher `pos` of `n` yields Err (or ends) after `k` of its messages
    Stream { n: usize, pos: usize, end: bool, k: usize },
}

pub fn ps_points() -> Vec<PsPoint> {
    let mut v = vec![];
    for n in 2..=4 {
        for pos in 0..n {
            for op in Op::ALL {
                for k in 0..=6 {
                    v.push(PsPoint::Sink { n, pos, op, k, only_op: false });
                }
                // the same placements with only that operation failing (the sink otherwise works)
                for k in [0usize, 1, 3] {
                    v.push(PsPoint::Sink { n, pos, op, k, only_op: true });
                }
            }
        }
    }
    for n in 1..=3 {
        for pos in 0..n {
            for end in [false, true] {
                for k in 0..=5 {
                    v.push(PsPoint::Stream { n, pos, end, k });
                }
            }
        }
    }
    v
}

pub fn gen_ps(point: PsPoint, rng: &mut Rng) -> PsScript {
    let (n_subs, n_pubs, fails, fault_stream) = match point {
        PsPoint::Sink { n, pos, op, k, only_op } => (n, rng.usize(1, 2), vec![SinkFail { s: pos, op, k, only_op }], None),
        PsPoint::Stream { n, pos, end, k } => (rng.usize(1, 3), n, vec![], Some((pos, end, k))),
    };
    let boundaries: Vec<usize> = (0..n_subs).map(|_| rng.usize(1, 3)).collect();
    let gates: Vec<bool> = vec![true; n_subs];
    let mut steps = vec![];
    // registration order = position
    let mut regs: Vec<PsStep> = (0..n_subs).map(PsStep::RegSub).collect();
    let pubs: Vec<PsStep> = (0..n_pubs).map(PsStep::RegPub).collect();
    if rng.chance(1, 2) {
        regs.extend(pubs);
    } else {
        let mut p = pubs;
        p.extend(regs);
        regs = p;
    }
    steps.extend(regs);
    let k = match point {
        PsPoint::Sink { k, .. } => k,
        PsPoint::Stream { k, .. } => k,
    };
    let total = (k + 2 + rng.usize(0, 4)).clamp(3, 12);
    let mut gate = gates.clone();
    let mut sent = vec![0usize; n_pubs];
    let mut faulted = false;
    for _ in 0..total {
        let p = rng.usize(0, n_pubs - 1);
        if let Some((fp, end, fk)) = fault_stream {
            if !faulted && sent[fp] >= fk {
                faulted = true;
                steps.push(if end { PsStep::EndPub(fp) } else { PsStep::FeedErr(fp) });
            }
        }
        steps.push(PsStep::Feed { p, n: 1 });
        sent[p] += 1;
        // seeded schedule of the other peers
        let toggles = rng.usize(0, 2);
        for _ in 0..toggles {
            let s = rng.usize(0, n_subs - 1);
            gate[s] = !gate[s];
            steps.push(PsStep::Gate { s, open: gate[s] });
        }
        if rng.chance(1, 8) {
            steps.push(PsStep::Wake);
        }
    }
    if let Some((fp, end, _)) = fault_stream {
        if !faulted {
            steps.push(if end { PsStep::EndPub(fp) } else { PsStep::FeedErr(fp) });
            steps.push(PsStep::Feed { p: (fp + 1) % n_pubs, n: 1 });
        }
    }
    PsScript { wake_driven: rng.chance(1, 2), n_pubs, boundaries, gates, fails, steps }
}

pub struct PsFailEnum;
pub static PS_FAIL_ENUM: PsFailEnum = PsFailEnum;

impl Family for PsFailEnum {
    fn name(&self) -> &'static str {
        "pubsub-fail-enum"
    }
    fn engine(&self) -> &'static str {
        "R"
    }
    fn generate(&self, _property: &str, _tier: Tier, index: u64, _total: u64, rng: &mut Rng) -> Value {
        let pts = ps_points();
        let point = pts[(index % pts.len() as u64) as usize];
        serde_json::to_value(gen_ps(point, rng)).unwrap()
    }
    fn execute(&self, property: &str, body: &Value, opts: &ExecOpts) -> Outcome {
        pubsub::PS_CLEAN.execute(property, body, opts)
    }
    fn shrink(&self, body: &Value) -> Vec<Value> {
        pubsub::PS_CLEAN.shrink(body)
    }
    fn watchdog_ms(&self) -> u64 {
        10_000
    }
    fn exhaustive_note(&self, _property: &str, tier: Tier) -> Option<String> {
        let n = ps_points().len();
        Some(format!(
            "pub/sub fault placements: {n} points = (2..4 subscribers x position x {{poll_ready,start_send,poll_flush,poll_close}} x message index 0..6) + (1..3 publishers x position x {{Err,end}} x message index 0..5); every point run under {} seeded schedules",
            if tier == Tier::Quick { "~50" } else { "~2000" }
        ))
    }
}

// ------------------------------------------------------------------------------------------
// request/reply
// ------------------------------------------------------------------------------------------

#[derive(Clone, Copy, Debug)]
pub enum RrPoint {
    /// requestor `pos` of `n`: its sink fails at `op` once `k` replies were handed to it
    ReqSink { n: usize, pos: usize, op: Op, k: usize, only_op: bool },
    /// the bound replier's sink fails at `op` once `k` requests were handed to it; a fresh replier registers afterwards
    RepSink { op: Op, k: usize, only_op: bool },
    /// requestor `pos` of `n`: its stream errs / ends after `k` requests
    ReqStream { n: usize, pos: usize, end: bool, k: usize },
    /// the replier's stream errs / ends after `k` replies; a fresh replier registers afterwards
    RepStream { end: bool, k: usize },
}

pub fn rr_points() -> Vec<RrPoint> {
    let mut v = vec![];
    for n in 2..=4 {
        for pos in 0..n {
            for op in Op::ALL {
                for k in 0..=4 {
                    v.push(RrPoint::ReqSink { n, pos, op, k, only_op: false });
                }
                for k in [0usize, 2] {
                    v.push(RrPoint::ReqSink { n, pos, op, k, only_op: true });
                }
            }
        }
    }
    for op in Op::ALL {
        for k in 0..=5 {
            v.push(RrPoint::RepSink { op, k, only_op: false });
            v.push(RrPoint::RepSink { op, k, only_op: true });
        }
    }
    for n in 2..=3 {
        for pos in 0..n {
            for end in [false, true] {
                for k in 0..=4 {
                    v.push(RrPoint::ReqStream { n, pos, end, k });
                }
            }
        }
    }
    for end in [false, true] {
        for k in 0..=4 {
            v.push(RrPoint::RepStream { end, k });
        }
    }
    v
}

pub fn gen_rr(point: RrPoint, rng: &mut Rng) -> RrScript {
    let n_req = match point {
        RrPoint::ReqSink { n, .. } | RrPoint::ReqStream { n, .. } => n,
        _ => rng.usize(1, 3),
    };
    let n_rep = 2;
    let n_sinks = n_req + n_rep;
    let boundaries: Vec<usize> = (0..n_sinks).map(|_| rng.usize(1, 3)).collect();
    let gates = vec![true; n_sinks];
    let mut fails = vec![];
    match point {
        RrPoint::ReqSink { pos, op, k, only_op, .. } => fails.push(RrFail { sink: pos, op, k, only_op }),
        RrPoint::RepSink { op, k, only_op } => fails.push(RrFail { sink: n_req, op, k, only_op }),
        _ => {}
    }
    let mut steps = vec![];
    let mut regs: Vec<RrStep> = (0..n_req).map(RrStep::RegReq).collect();
    let at = rng.usize(0, regs.len());
    regs.insert(at, RrStep::RegRep(0));
    steps.extend(regs);
    let k = match point {
        RrPoint::ReqSink { k, .. } | RrPoint::RepSink { k, .. } | RrPoint::ReqStream { k, .. } | RrPoint::RepStream { k, .. } => k,
    };
    let rounds = (k + 3 + rng.usize(0, 3)).clamp(4, 12);
    let mut gate = gates.clone();
    let mut sent = vec![0usize; n_req];
    let mut replies = 0usize;
    let mut faulted = false;
    let mut second_registered = false;
    let mut cur_rep = 0usize;
    for round in 0..rounds {
        // whose request: bias towards the faulty requestor so its index advances
        let r = match point {
            RrPoint::ReqSink { pos, .. } | RrPoint::ReqStream { pos, .. } if rng.chance(1, 2) => pos,
            _ => rng.usize(0, n_req - 1),
        };
        if let RrPoint::ReqStream { pos, end, k, .. } = point {
            if !faulted && sent[pos] >= k {
                faulted = true;
                steps.push(if end { RrStep::EndReq(pos) } else { RrStep::ReqErr(pos) });
            }
        }
        steps.push(RrStep::Request { r, n: 1, forge: None });
        sent[r] += 1;
        if let RrPoint::RepStream { end, k } = point {
            if !faulted && replies >= k {
                faulted = true;
                steps.push(if end { RrStep::EndRep(0) } else { RrStep::RepErr(0) });
                if end {
                    // let the unbind settle, then a fresh replier binds
                    steps.push(RrStep::Wake);
                    steps.push(RrStep::RegRep(1));
                    second_registered = true;
                    cur_rep = 1;
                }
            }
        }
        if rng.chance(4, 5) {
            steps.push(RrStep::Reply { q: cur_rep, pick: *rng.pick(&[Pick::Oldest, Pick::All, Pick::Newest]) });
            replies += 1;
        }
        let toggles = rng.usize(0, 2);
        for _ in 0..toggles {
            let s = rng.usize(0, n_sinks - 1);
            gate[s] = !gate[s];
            steps.push(RrStep::Gate { sink: s, open: gate[s] });
        }
        if let RrPoint::RepSink { k, .. } = point {
            // once the failure must have fired, a fresh replier registers and is given work
            if !second_registered && round >= k + 2 {
                for s in 0..n_sinks {
                    if !gate[s] {
                        gate[s] = true;
                        steps.push(RrStep::Gate { sink: s, open: true });
                    }
                }
                steps.push(RrStep::Wake);
                steps.push(RrStep::RegRep(1));
                second_registered = true;
                cur_rep = 1;
            }
        }
    }
    steps.push(RrStep::Reply { q: cur_rep, pick: Pick::All });
    RrScript { wake_driven: rng.chance(1, 2), n_req, n_rep, boundaries, gates, fails, steps }
}

pub struct RrFailEnum;
pub static RR_FAIL_ENUM: RrFailEnum = RrFailEnum;

impl Family for RrFailEnum {
    fn name(&self) -> &'static str {
        "reqrep-fail-enum"
    }
    fn engine(&self) -> &'static str {
        "R"
    }
    fn generate(&self, _property: &str, _tier: Tier, index: u64, _total: u64, rng: &mut Rng) -> Value {
        let pts = rr_points();
        let point = pts[(index % pts.len() as u64) as usize];
        serde_json::to_value(gen_rr(point, rng)).unwrap()
    }
    fn execute(&self, property: &str, body: &Value, opts: &ExecOpts) -> Outcome {
        reqrep::RR_CLEAN.execute(property, body, opts)
    }
    fn shrink(&self, body: &Value) -> Vec<Value> {
        reqrep::RR_CLEAN.shrink(body)
    }
    fn watchdog_ms(&self) -> u64 {
        10_000
    }
    fn exhaustive_note(&self, _property: &str, tier: Tier) -> Option<String> {
        let n = rr_points().len();
        Some(format!(
            "request/reply fault placements: {n} points = (2..4 requestors x position x 4 sink operations x reply index 0..4) + (bound replier sink x 4 operations x request index 0..5, then a fresh replier) + (requestor stream Err/end x position x index 0..4) + (replier stream Err/end x index 0..4, then a fresh replier); every point run under {} seeded schedules",
            if tier == Tier::Quick { "~50" } else { "~2000" }
        ))
    }
}
