//! Scripted peers for the router-sim engine: mock sinks and streams handed to the real routers as
//! `BoxSink` / `BoxStream`, plus the executor that polls the router future.
//!
//! The mock sink is a reference model of what the production sink (`FramedWrite<SendStream>`)
//! promises: `start_send` always buffers; `poll_flush`/`poll_close` move what was handed to
//! "delivered" when the (scripted) transport accepts, otherwise store the waker and return
//! `Pending`; `poll_ready` behaves like `poll_flush` once `handed - delivered` reaches the
//! back-pressure boundary. Mocks never draw random numbers: their answers depend only on script
//! steps, so the order in which a router polls them cannot change what they answer.

use futures::{Sink, Stream};
use selium_protocol::Frame;
use selium_std::errors::SeliumError;
use std::collections::VecDeque;
use std::future::Future;
use std::panic::{catch_unwind, AssertUnwindSafe};
use std::pin::Pin;
use std::sync::atomic::{AtomicBool, AtomicU64, Ordering};
use std::sync::{Arc, Mutex, MutexGuard};
use std::task::{Context, Poll, Wake, Waker};

pub const HARD_POLL_LIMIT: u32 = 10_000;

#[derive(Clone, Copy, Debug, PartialEq, Eq, serde::Serialize, serde::Deserialize)]
#[serde(rename_all = "snake_case")]
pub enum Op {
    PollReady,
    StartSend,
    PollFlush,
    PollClose,
}

impl Op {
    pub fn idx(self) -> usize {
        match self {
            Op::PollReady => 0,
            Op::StartSend => 1,
            Op::PollFlush => 2,
            Op::PollClose => 3,
        }
    }
    pub const ALL: [Op; 4] = [Op::PollReady, Op::StartSend, Op::PollFlush, Op::PollClose];
}

#[derive(Clone, Copy, Debug, PartialEq, Eq)]
pub enum ActorKind {
    Sink,
    Stream,
    Exec,
}

/// Compact event: (kind, id, op, outcome)
#[derive(Clone, Copy, Debug, PartialEq, Eq)]
pub struct Ev {
    pub kind: u8,
    pub id: u16,
    pub op: u8,
    pub out: u8,
}

pub const OUT_READY: u8 = 0;
pub const OUT_PENDING: u8 = 1;
pub const OUT_ERR: u8 = 2;
pub const OUT_ITEM: u8 = 3;
pub const OUT_NONE: u8 = 4;
pub const OUT_ITEM_ERR: u8 = 5;
pub const OUT_DROP: u8 = 6;

pub struct SinkState {
    pub handed: Vec<Frame>,
    pub delivered: usize,
    pub gate_open: bool,
    pub boundary: usize,
    /// (op, k): the op fails (and the sink stays failed) at its first call with handed.len() >= k
    pub fail_at: Option<(Op, usize)>,
    /// false: only the scripted operation fails (every time from the trigger on), the others keep
    /// succeeding; true: once it has failed, every operation of the sink fails
    pub fail_sticky: bool,
    pub errored: bool,
    pub errored_at_handed: usize,
    pub calls: [u64; 4],
    pub calls_after_error: u64,
    pub waker: Option<Waker>,
    pub closed: bool,
    pub dropped: bool,
    pub handed_at_drop: usize,
    pub delivered_at_drop: usize,
    /// number of items the pub/sub router had accepted when this sink was first touched
    pub first_touch: Option<usize>,
    pub polls_this_poll: u32,
    pub pending_this_poll: bool,
    /// global event index of each start_send (to order hand-overs across sinks)
    pub handed_ev: Vec<usize>,
    /// frames the production sink would refuse to encode (> 1 MiB payload): offered, not accepted
    pub refused_oversize: Vec<Frame>,
}

impl SinkState {
    pub fn new(boundary: usize, gate_open: bool) -> Self {
        SinkState {
            handed: vec![],
            delivered: 0,
            gate_open,
            boundary: boundary.max(1),
            fail_at: None,
            fail_sticky: true,
            errored: false,
            errored_at_handed: 0,
            calls: [0; 4],
            calls_after_error: 0,
            waker: None,
            closed: false,
            dropped: false,
            handed_at_drop: 0,
            delivered_at_drop: 0,
            first_touch: None,
            polls_this_poll: 0,
            pending_this_poll: false,
            handed_ev: vec![],
            refused_oversize: vec![],
        }
    }
    pub fn healthy(&self) -> bool {
        !self.errored
    }
}

pub struct StreamState {
    pub queue: VecDeque<Result<Frame, ()>>,
    pub ended: bool,
    pub waker: Option<Waker>,
    pub yielded: usize,
    pub none_returned: u32,
    pub dropped: bool,
    pub polls_this_poll: u32,
    pub polled_after_none: u32,
}

impl StreamState {
    pub fn new() -> Self {
        StreamState {
            queue: VecDeque::new(),
            ended: false,
            waker: None,
            yielded: 0,
            none_returned: 0,
            dropped: false,
            polls_this_poll: 0,
            polled_after_none: 0,
        }
    }
}

#[derive(Default)]
pub struct World {
    pub sinks: Vec<SinkState>,
    pub streams: Vec<StreamState>,
    /// frames yielded Ok by streams, in the order the router took them: (stream id, frame)
    pub accepted: Vec<(usize, Frame)>,
    pub events: Vec<Ev>,
    pub calls_this_poll: u64,
    pub max_calls_in_a_poll: u64,
    pub hard_limit_hit: Option<String>,
    pub in_poll: bool,
}

pub type Shared = Arc<Mutex<World>>;

pub fn lock(w: &Shared) -> MutexGuard<'_, World> {
    w.lock().unwrap_or_else(|e| e.into_inner())
}

impl World {
    pub fn new_shared() -> Shared {
        Arc::new(Mutex::new(World::default()))
    }
    pub fn add_sink(&mut self, boundary: usize, gate_open: bool) -> usize {
        self.sinks.push(SinkState::new(boundary, gate_open));
        self.sinks.len() - 1
    }
    pub fn add_stream(&mut self) -> usize {
        self.streams.push(StreamState::new());
        self.streams.len() - 1
    }
    fn ev(&mut self, kind: u8, id: usize, op: u8, out: u8) {
        self.events.push(Ev { kind, id: id as u16, op, out });
    }
    pub fn begin_poll(&mut self) {
        self.calls_this_poll = 0;
        self.in_poll = true;
        for s in &mut self.sinks {
            s.polls_this_poll = 0;
            s.pending_this_poll = false;
        }
        for s in &mut self.streams {
            s.polls_this_poll = 0;
        }
    }
    pub fn end_poll(&mut self) {
        self.in_poll = false;
        if self.calls_this_poll > self.max_calls_in_a_poll {
            self.max_calls_in_a_poll = self.calls_this_poll;
        }
    }
    pub fn any_sink_pending_this_poll(&self) -> bool {
        self.sinks.iter().any(|s| s.pending_this_poll)
    }
    /// Script side: open/close a sink's transport gate. Opening delivers the stored waker.
    pub fn set_gate(&mut self, sink: usize, open: bool) -> bool {
        let s = &mut self.sinks[sink];
        s.gate_open = open;
        if open {
            if let Some(w) = s.waker.take() {
                w.wake();
                return true;
            }
        }
        false
    }
    /// Script side: make an item available on a stream; delivers the stored waker.
    pub fn feed(&mut self, stream: usize, item: Result<Frame, ()>) {
        let s = &mut self.streams[stream];
        s.queue.push_back(item);
        if let Some(w) = s.waker.take() {
            w.wake();
        }
    }
    /// Script side: the peer's connection dies. Its stream ends and every later operation on its
    /// sink fails, as happens to `FramedWrite<SendStream>` when the QUIC connection is gone; a
    /// router waiting for the sink is woken.
    pub fn crash_peer(&mut self, id: usize) {
        self.end_stream(id);
        let s = &mut self.sinks[id];
        if !s.errored {
            s.errored_at_handed = s.handed.len();
        }
        s.errored = true;
        s.fail_sticky = true;
        if let Some(w) = s.waker.take() {
            w.wake();
        }
    }
    pub fn end_stream(&mut self, stream: usize) {
        let s = &mut self.streams[stream];
        s.ended = true;
        if let Some(w) = s.waker.take() {
            w.wake();
        }
    }
}

fn sim_err() -> SeliumError {
    SeliumError::IoError(std::io::Error::new(
        std::io::ErrorKind::ConnectionReset,
        "simulated peer failure",
    ))
}

pub struct MockSink {
    pub world: Shared,
    pub id: usize,
}

impl MockSink {
    fn enter(&self, op: Op) -> MutexGuard<'_, World> {
        let mut w = lock(&self.world);
        w.calls_this_poll += 1;
        let accepted = w.accepted.len();
        let s = &mut w.sinks[self.id];
        s.calls[op.idx()] += 1;
        s.polls_this_poll += 1;
        if s.first_touch.is_none() {
            s.first_touch = Some(accepted);
        }
        if s.errored {
            s.calls_after_error += 1;
        }
        if s.polls_this_poll > HARD_POLL_LIMIT {
            let msg = format!("sink {} polled more than {} times inside one router poll ({:?})", self.id, HARD_POLL_LIMIT, op);
            w.hard_limit_hit = Some(msg.clone());
            drop(w);
            panic!("SIM-BUDGET: {msg}");
        }
        w
    }
    /// returns true if this call must fail
    fn should_fail(s: &mut SinkState, op: Op) -> bool {
        if s.errored && s.fail_sticky {
            return true;
        }
        if let Some((fop, k)) = s.fail_at {
            if fop == op && s.handed.len() >= k {
                if !s.errored {
                    s.errored_at_handed = s.handed.len();
                }
                s.errored = true;
                return true;
            }
        }
        false
    }
}

impl Sink<Frame> for MockSink {
    type Error = SeliumError;

    fn poll_ready(self: Pin<&mut Self>, cx: &mut Context<'_>) -> Poll<Result<(), SeliumError>> {
        let id = self.id;
        let mut w = self.enter(Op::PollReady);
        let s = &mut w.sinks[id];
        if Self::should_fail(s, Op::PollReady) {
            w.ev(0, id, 0, OUT_ERR);
            return Poll::Ready(Err(sim_err()));
        }
        if s.handed.len() - s.delivered < s.boundary {
            w.ev(0, id, 0, OUT_READY);
            return Poll::Ready(Ok(()));
        }
        if s.gate_open {
            s.delivered = s.handed.len();
            w.ev(0, id, 0, OUT_READY);
            Poll::Ready(Ok(()))
        } else {
            s.waker = Some(cx.waker().clone());
            s.pending_this_poll = true;
            w.ev(0, id, 0, OUT_PENDING);
            Poll::Pending
        }
    }

    fn start_send(self: Pin<&mut Self>, item: Frame) -> Result<(), SeliumError> {
        let id = self.id;
        let mut w = self.enter(Op::StartSend);
        let evn = w.events.len();
        let s = &mut w.sinks[id];
        if Self::should_fail(s, Op::StartSend) {
            w.ev(0, id, 1, OUT_ERR);
            return Err(sim_err());
        }
        // the production sink (FramedWrite<MessageCodec>) refuses to encode a payload above 1 MiB;
        // the sink itself stays usable, only this item is not accepted
        if item.get_length().map(|l| l > 1024 * 1024).unwrap_or(false) {
            s.refused_oversize.push(item);
            s.errored = true;
            s.errored_at_handed = s.handed.len();
            w.ev(0, id, 1, OUT_ERR);
            return Err(SeliumError::Protocol(selium_std::errors::ProtocolError::PayloadTooLarge(0, 1024 * 1024)));
        }
        s.handed.push(item);
        s.handed_ev.push(evn);
        w.ev(0, id, 1, OUT_READY);
        Ok(())
    }

    fn poll_flush(self: Pin<&mut Self>, cx: &mut Context<'_>) -> Poll<Result<(), SeliumError>> {
        let id = self.id;
        let mut w = self.enter(Op::PollFlush);
        let s = &mut w.sinks[id];
        if Self::should_fail(s, Op::PollFlush) {
            w.ev(0, id, 2, OUT_ERR);
            return Poll::Ready(Err(sim_err()));
        }
        if s.gate_open {
            s.delivered = s.handed.len();
            w.ev(0, id, 2, OUT_READY);
            Poll::Ready(Ok(()))
        } else {
            s.waker = Some(cx.waker().clone());
            s.pending_this_poll = true;
            w.ev(0, id, 2, OUT_PENDING);
            Poll::Pending
        }
    }

    fn poll_close(self: Pin<&mut Self>, cx: &mut Context<'_>) -> Poll<Result<(), SeliumError>> {
        let id = self.id;
        let mut w = self.enter(Op::PollClose);
        let s = &mut w.sinks[id];
        if Self::should_fail(s, Op::PollClose) {
            w.ev(0, id, 3, OUT_ERR);
            return Poll::Ready(Err(sim_err()));
        }
        if s.gate_open {
            s.delivered = s.handed.len();
            s.closed = true;
            w.ev(0, id, 3, OUT_READY);
            Poll::Ready(Ok(()))
        } else {
            s.waker = Some(cx.waker().clone());
            s.pending_this_poll = true;
            w.ev(0, id, 3, OUT_PENDING);
            Poll::Pending
        }
    }
}

impl Drop for MockSink {
    fn drop(&mut self) {
        let mut w = lock(&self.world);
        let id = self.id;
        let s = &mut w.sinks[id];
        s.dropped = true;
        s.handed_at_drop = s.handed.len();
        s.delivered_at_drop = s.delivered;
        s.waker = None;
        w.ev(0, id, 4, OUT_DROP);
    }
}

pub struct MockStream {
    pub world: Shared,
    pub id: usize,
}

impl Stream for MockStream {
    type Item = Result<Frame, SeliumError>;

    fn poll_next(self: Pin<&mut Self>, cx: &mut Context<'_>) -> Poll<Option<Self::Item>> {
        let id = self.id;
        let mut w = lock(&self.world);
        w.calls_this_poll += 1;
        {
            let s = &mut w.streams[id];
            s.polls_this_poll += 1;
            if s.polls_this_poll > HARD_POLL_LIMIT {
                let msg = format!("stream {} polled more than {} times inside one router poll", id, HARD_POLL_LIMIT);
                w.hard_limit_hit = Some(msg.clone());
                drop(w);
                panic!("SIM-BUDGET: {msg}");
            }
        }
        let s = &mut w.streams[id];
        if s.none_returned > 0 {
            s.polled_after_none += 1;
        }
        match s.queue.pop_front() {
            Some(Ok(frame)) => {
                s.yielded += 1;
                w.accepted.push((id, frame.clone()));
                w.ev(1, id, 0, OUT_ITEM);
                Poll::Ready(Some(Ok(frame)))
            }
            Some(Err(())) => {
                w.ev(1, id, 0, OUT_ITEM_ERR);
                Poll::Ready(Some(Err(sim_err())))
            }
            None => {
                if s.ended {
                    s.none_returned += 1;
                    w.ev(1, id, 0, OUT_NONE);
                    Poll::Ready(None)
                } else {
                    s.waker = Some(cx.waker().clone());
                    w.ev(1, id, 0, OUT_PENDING);
                    Poll::Pending
                }
            }
        }
    }
}

impl Drop for MockStream {
    fn drop(&mut self) {
        let mut w = lock(&self.world);
        let id = self.id;
        w.streams[id].dropped = true;
        w.streams[id].waker = None;
        w.ev(1, id, 4, OUT_DROP);
    }
}

// ---------------------------------------------------------------------------------------------
// Executor
// ---------------------------------------------------------------------------------------------

pub struct WakeFlag {
    pub woken: AtomicBool,
    pub count: AtomicU64,
}

impl Wake for WakeFlag {
    fn wake(self: Arc<Self>) {
        self.woken.store(true, Ordering::SeqCst);
        self.count.fetch_add(1, Ordering::SeqCst);
    }
    fn wake_by_ref(self: &Arc<Self>) {
        self.woken.store(true, Ordering::SeqCst);
        self.count.fetch_add(1, Ordering::SeqCst);
    }
}

#[derive(Debug, Clone, PartialEq, Eq)]
pub enum PollOutcome {
    Pending,
    Ready,
    Panicked { location: String, message: String },
    AlreadyDone,
}

pub struct Exec {
    fut: Option<Pin<Box<dyn Future<Output = ()>>>>,
    pub flag: Arc<WakeFlag>,
    waker: Waker,
    pub polls: u64,
    pub finished: bool,
    pub panicked: Option<(String, String)>,
    world: Shared,
}

impl Exec {
    pub fn new<F: Future<Output = ()> + 'static>(fut: F, world: Shared) -> Self {
        let flag = Arc::new(WakeFlag {
            woken: AtomicBool::new(true), // a new task is scheduled once
            count: AtomicU64::new(0),
        });
        let waker = Waker::from(flag.clone());
        Exec {
            fut: Some(Box::pin(fut)),
            flag,
            waker,
            polls: 0,
            finished: false,
            panicked: None,
            world,
        }
    }

    pub fn is_woken(&self) -> bool {
        self.flag.woken.load(Ordering::SeqCst)
    }

    pub fn alive(&self) -> bool {
        self.fut.is_some()
    }

    pub fn poll_once(&mut self) -> PollOutcome {
        let Some(fut) = self.fut.as_mut() else {
            return PollOutcome::AlreadyDone;
        };
        self.flag.woken.store(false, Ordering::SeqCst);
        self.polls += 1;
        lock(&self.world).begin_poll();
        let mut cx = Context::from_waker(&self.waker);
        crate::panics::begin_capture();
        let r = catch_unwind(AssertUnwindSafe(|| fut.as_mut().poll(&mut cx)));
        let captured = crate::panics::end_capture();
        lock(&self.world).end_poll();
        match r {
            Ok(Poll::Pending) => {
                lock(&self.world).events.push(Ev { kind: 2, id: 0, op: 0, out: OUT_PENDING });
                PollOutcome::Pending
            }
            Ok(Poll::Ready(())) => {
                lock(&self.world).events.push(Ev { kind: 2, id: 0, op: 0, out: OUT_READY });
                self.finished = true;
                self.fut = None; // drops the router and with it every peer it still holds
                PollOutcome::Ready
            }
            Err(_) => {
                let (location, message) = captured.unwrap_or(("unknown".into(), "unknown".into()));
                lock(&self.world).events.push(Ev { kind: 2, id: 0, op: 0, out: OUT_ERR });
                self.panicked = Some((location.clone(), message.clone()));
                // the router is dead; forget it without running destructors twice
                let f = self.fut.take();
                let _ = catch_unwind(AssertUnwindSafe(move || drop(f)));
                PollOutcome::Panicked { location, message }
            }
        }
    }
}
