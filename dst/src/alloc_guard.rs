//! Counting global allocator: while armed on the current thread, records the largest single
//! allocation request; requests above a hard ceiling are refused (the allocation fails, the
//! process aborts and the supervisor attributes the death to the script in flight) so a decoder
//! that trusts an attacker-supplied length can never take the machine down.
use std::alloc::{GlobalAlloc, Layout, System};
use std::cell::Cell;

thread_local! {
    static THRESHOLD: Cell<usize> = const { Cell::new(usize::MAX) };
    static BIGGEST: Cell<usize> = const { Cell::new(0) };
}

/// Requests above this are refused outright while the guard is armed.
pub const HARD_CEILING: usize = 3 << 30;

pub struct Guard;

#[inline]
fn note(size: usize) -> bool {
    // returns false if the request must be refused
    let t = THRESHOLD.try_with(|t| t.get()).unwrap_or(usize::MAX);
    if size > t {
        let _ = BIGGEST.try_with(|b| {
            if size > b.get() {
                b.set(size)
            }
        });
        if size > HARD_CEILING {
            let msg = b"SIM-ALLOC-REFUSED: allocation request above the hard ceiling while decoding\n";
            unsafe {
                libc::write(2, msg.as_ptr() as *const libc::c_void, msg.len());
            }
            return false;
        }
    }
    true
}

unsafe impl GlobalAlloc for Guard {
    unsafe fn alloc(&self, layout: Layout) -> *mut u8 {
        if !note(layout.size()) {
            return std::ptr::null_mut();
        }
        System.alloc(layout)
    }
    unsafe fn alloc_zeroed(&self, layout: Layout) -> *mut u8 {
        if !note(layout.size()) {
            return std::ptr::null_mut();
        }
        System.alloc_zeroed(layout)
    }
    unsafe fn dealloc(&self, ptr: *mut u8, layout: Layout) {
        System.dealloc(ptr, layout)
    }
    unsafe fn realloc(&self, ptr: *mut u8, layout: Layout, new_size: usize) -> *mut u8 {
        if !note(new_size) {
            return std::ptr::null_mut();
        }
        System.realloc(ptr, layout, new_size)
    }
}

pub fn arm(threshold: usize) {
    THRESHOLD.with(|t| t.set(threshold));
    BIGGEST.with(|b| b.set(0));
}

/// Disarms and returns the largest request seen above the threshold (0 if none).
pub fn disarm() -> usize {
    THRESHOLD.with(|t| t.set(usize::MAX));
    BIGGEST.with(|b| b.replace(0))
}
