//! Which families exist and which of them, in what numbers, make up each property's check.
use crate::core::*;
use crate::nsim;
use crate::rsim;
use crate::wsim;

pub fn families() -> Vec<&'static dyn Family> {
    vec![
        &rsim::pubsub::PS_CLEAN,
        &rsim::pubsub::PS_WAKE,
        &rsim::pubsub::PS_PARTIAL,
        &rsim::pubsub::PS_SHUTDOWN,
        &rsim::pubsub::PS_FAIL_RANDOM,
        &rsim::pubsub::PS_SHUTDOWN_FAIL,
        &rsim::reqrep::RR_CLEAN,
        &rsim::reqrep::RR_WAKE,
        &rsim::reqrep::RR_PARTIAL,
        &rsim::reqrep::RR_REPLIERS,
        &rsim::reqrep::RR_SHUTDOWN,
        &rsim::reqrep::RR_FAIL_RANDOM,
        &rsim::reqrep::RR_FRAMES,
        &rsim::reqrep::RR_FRAMES_REBIND,
        &rsim::enumfail::PS_FAIL_ENUM,
        &rsim::enumfail::RR_FAIL_ENUM,
        &wsim::clean::WIRE_CLEAN,
        &wsim::hostile::WIRE_HOSTILE,
        &nsim::smoke::SMOKE,
        &nsim::e2e::E2E_C03,
        &nsim::e2e::E2E_C14,
        &nsim::hostile::HOSTILE_PEER,
        &nsim::hostile::INVALID_PAYLOADS,
        &nsim::reqrep_e2e::REQREP_E2E,
        &nsim::reconnect::RECONNECT,
        &nsim::reconnect::BACKOFF_TIMING,
        &nsim::names::NAMES,
        &nsim::mtls::MTLS,
        &nsim::stall::STALL,
        &nsim::frames::HOSTILE_FRAMES,
        &nsim::shutdown::SHUTDOWN_LIVE,
        &nsim::multitopic::MULTI_TOPIC,
        &nsim::peerloss::PEER_LOSS,
        &nsim::rrslow::RR_SLOW,
        &nsim::rereg::REREG,
        &nsim::hostile_server::HOSTILE_SERVER,
        &nsim::chaos::CHAOS,
        &nsim::regrace::REG_RACE,
        &nsim::rrbulk::BULK,
        &nsim::rejstall::REJ_STALL,
    ]
}

pub fn family(name: &str) -> Option<&'static dyn Family> {
    families().into_iter().find(|f| f.name() == name)
}

const R_REAL: &[&str] = &[
    "selium_server::topic::pubsub::Topic (poll state machine)",
    "selium_server::topic::reqrep::Topic",
    "selium_server::sink::FanoutMany",
    "selium_server::sink::Router",
    "futures::channel::mpsc registration channel",
    "tokio_stream::StreamMap",
    "selium_protocol::Frame",
];
const R_STUB: &[&str] = &[
    "publisher/requestor/replier streams (scripted MockStream)",
    "subscriber/requestor/replier sinks (scripted MockSink modelling FramedWrite<SendStream>)",
    "executor (harness: eager or wake-driven)",
    "QUIC transport (absent)",
];

const N_REAL: &[&str] = &[
    "selium client library (builders, Publisher, Subscriber, Requestor, Replier, both KeepAlive wrappers, ClientConnection)",
    "selium-server (Server::listen, handle_connection, handle_stream, topic map, both routers, quic::server_config)",
    "selium-protocol (BiStream, MessageCodec), selium-std (codecs, compression), selium-tools certificate generator",
    "quinn 0.10.2 + quinn-proto (clock seam patched, otherwise verbatim), rustls + ring",
    "tokio current-thread runtime with paused clock",
];
const N_STUB: &[&str] = &[
    "UDP network (SimNet: in-memory datagram delivery with seeded loss, duplication, delay/reordering, partitions)",
    "clock (tokio virtual time; quinn's 6 Instant::now() call sites routed to it)",
    "OS entropy (per-run seeded stream served through getrandom/getentropy/syscall overrides)",
];

pub fn plan(property: &str) -> Option<CheckPlan> {
    match property {
        "C01" => Some(CheckPlan {
            property: "C01",
            level: "exploration",
            rule: "scripts are generated from VERIF_SEED (registrations, feeds, gate toggles, stream ends in seeded order); a run is non-trivial when >= 2 messages were accepted, >= 1 subscriber registered and at least one Pending outcome or stream end actually fired; distinct = distinct script bodies among the non-trivial runs; the pubsub-shutdown family closes the registration channel at a seeded step (the last clause, nothing accepted is left unflushed once every subscriber accepts data, also binds a router that is told to stop)",
            assumptions: vec![
                "mock sink models FramedWrite<SendStream>: start_send buffers, flush/close deliver when the transport accepts, poll_ready flushes at the back-pressure boundary",
                "a router that returns Pending in a poll where no sink was Pending has drained its registration channel",
            ],
            real: R_REAL.to_vec(),
            stubbed: R_STUB.to_vec(),
            items: vec![PlanItem { family: &rsim::pubsub::PS_CLEAN, quick: 200_000, thorough: 5_000_000 }, PlanItem { family: &rsim::pubsub::PS_FAIL_RANDOM, quick: 60_000, thorough: 1_500_000 }, PlanItem { family: &rsim::pubsub::PS_SHUTDOWN, quick: 40_000, thorough: 1_000_000 }, PlanItem { family: &nsim::multitopic::MULTI_TOPIC, quick: 300, thorough: 10_000 }, PlanItem { family: &nsim::chaos::CHAOS, quick: 150, thorough: 6_000 }, PlanItem { family: &nsim::regrace::REG_RACE, quick: 200, thorough: 8_000 }],
        }),
        "C02" => Some(CheckPlan {
            property: "C02",
            level: "exploration",
            rule: "scripts (requestor/replier registrations, requests incl. forged routing tags, scripted replies in/out of order and ill-tagged, gate toggles) generated from VERIF_SEED; non-trivial = >= 1 request accepted, >= 1 reply delivered and at least one Pending outcome fired; distinct = distinct script bodies among those",
            assumptions: vec![
                "mock sinks model FramedWrite<SendStream>",
                "a router that parks in a poll where no sink was Pending has drained its registration channel",
            ],
            real: R_REAL.to_vec(),
            stubbed: R_STUB.to_vec(),
            items: vec![PlanItem { family: &rsim::reqrep::RR_CLEAN, quick: 200_000, thorough: 5_000_000 }, PlanItem { family: &rsim::reqrep::RR_WAKE, quick: 100_000, thorough: 2_500_000 }, PlanItem { family: &nsim::rrslow::RR_SLOW, quick: 200, thorough: 8_000 }],
        }),
        "C09" => Some(CheckPlan {
            property: "C09",
            level: "exploration",
            rule: "every script runs under the wake-driven executor (the router is polled only when its waker fired) with a per-poll work budget; families: pub/sub and request/reply traffic plus partial topologies (no peers, one side only, side departed); non-trivial by the family's rule; distinct = distinct script bodies",
            assumptions: vec!["mock sinks/streams wake the stored waker exactly when their scripted state changes (gate opens, item fed, stream ends)"],
            real: R_REAL.to_vec(),
            stubbed: R_STUB.to_vec(),
            items: vec![
                PlanItem { family: &rsim::pubsub::PS_WAKE, quick: 100_000, thorough: 2_500_000 },
                PlanItem { family: &rsim::pubsub::PS_PARTIAL, quick: 50_000, thorough: 1_500_000 },
                PlanItem { family: &rsim::reqrep::RR_WAKE, quick: 100_000, thorough: 2_500_000 },
                PlanItem { family: &rsim::reqrep::RR_PARTIAL, quick: 50_000, thorough: 1_500_000 },
            ],
        }),
        "C10" => Some(CheckPlan {
            property: "C10",
            level: "exploration",
            rule: "1-5 replier registrations and departures interleaved with requests, replies and gate toggles (rejected repliers' sinks included); the reqrep-fail-random family adds sinks that fail, among them the rejected repliers' (the bound replier's traffic must stay unaffected by whatever happens to a rejected one); non-trivial by the request/reply family rule; distinct = distinct script bodies",
            assumptions: vec!["a replier counts as still bound until a parked poll has happened after its stream end"],
            real: R_REAL.to_vec(),
            stubbed: R_STUB.to_vec(),
            items: vec![PlanItem { family: &rsim::reqrep::RR_REPLIERS, quick: 150_000, thorough: 4_000_000 }, PlanItem { family: &rsim::reqrep::RR_FAIL_RANDOM, quick: 50_000, thorough: 1_500_000 }, PlanItem { family: &nsim::shutdown::SHUTDOWN_LIVE, quick: 60, thorough: 2_000 }, PlanItem { family: &nsim::regrace::REG_RACE, quick: 200, thorough: 8_000 }, PlanItem { family: &nsim::rejstall::REJ_STALL, quick: 64, thorough: 2_000 }],
        }),
        "C15" => Some(CheckPlan {
            property: "C15",
            level: "fault_enumeration",
            rule: "run i executes identity pairing (i mod 8) of client {CA-issued, issued by another CA, self-signed, none} x server {CA-issued, issued by another CA}; keys are freshly generated per run by the bundled generator (twice, for the two CAs) from the run's entropy stream; the handshake runs under a seeded loss/duplication/reordering schedule; the refused peer is the library client or a raw quinn client; distinct = distinct script bodies",
            assumptions: vec!["success (connect + first registration + one delivered message) is expected iff both sides are CA-issued; for the trusted pairing it is demanded only on a loss-free network", "a refusal may surface at connect() or at the first registration (TLS 1.3 validates the client certificate after the client has finished)"],
            real: N_REAL.to_vec(),
            stubbed: N_STUB.to_vec(),
            items: vec![PlanItem { family: &nsim::mtls::MTLS, quick: 320, thorough: 25_600 }],
        }),
        "C16" => Some(CheckPlan {
            property: "C16",
            level: "exploration",
            rule: "pub/sub and request/reply scripts with the registration channel closed (or its sender dropped) at a seeded step; afterwards every gate opens; non-trivial by the family rule; distinct = distinct script bodies",
            assumptions: vec!["closing the sender returned by Topic::pair() is what Server::shutdown does through close_channel"],
            real: R_REAL.to_vec(),
            stubbed: R_STUB.to_vec(),
            items: vec![
                PlanItem { family: &rsim::pubsub::PS_SHUTDOWN, quick: 100_000, thorough: 2_500_000 },
                PlanItem { family: &rsim::reqrep::RR_SHUTDOWN, quick: 50_000, thorough: 1_500_000 },
                PlanItem { family: &rsim::pubsub::PS_SHUTDOWN_FAIL, quick: 60_000, thorough: 1_500_000 },
                PlanItem { family: &nsim::shutdown::SHUTDOWN_LIVE, quick: 100, thorough: 4_000 },
            ],
        }),
        "C08" => Some(CheckPlan {
            property: "C08",
            level: "fault_enumeration",
            rule: "run index i executes fault point (i mod #points) of the listed placement space under a schedule drawn from VERIF_SEED; plus random one- and two-peer failures; non-trivial = >= 2 messages/requests accepted with a fault or Pending outcome fired; distinct = distinct script bodies",
            assumptions: vec![
                "a peer failure is a sink operation returning Err from a scripted point on (and forever after), or a stream yielding Err / ending",
                "mock sinks model FramedWrite<SendStream>",
            ],
            real: R_REAL.to_vec(),
            stubbed: R_STUB.to_vec(),
            items: vec![
                PlanItem { family: &rsim::enumfail::PS_FAIL_ENUM, quick: 16_000, thorough: 640_000 },
                PlanItem { family: &rsim::enumfail::RR_FAIL_ENUM, quick: 15_000, thorough: 600_000 },
                PlanItem { family: &rsim::pubsub::PS_FAIL_RANDOM, quick: 60_000, thorough: 2_400_000 },
                PlanItem { family: &rsim::reqrep::RR_FAIL_RANDOM, quick: 60_000, thorough: 2_400_000 },
                PlanItem { family: &nsim::peerloss::PEER_LOSS, quick: 200, thorough: 8_000 },
            ],
        }),
        "C11" => Some(CheckPlan {
            property: "C11",
            level: "exploration",
            rule: "R: request/reply scripts in which requestors and repliers also send frames of every other kind mid-stream (Ok, BatchMessage, Error, Register*, a request at the frame limit); N: raw peers against the simulated server; non-trivial by the family rule; distinct = distinct script bodies",
            assumptions: vec!["R part: frames reach the router already decoded (the codec is exercised by C05/C06 and by the N part)"],
            real: R_REAL.to_vec(),
            stubbed: R_STUB.to_vec(),
            items: vec![PlanItem { family: &rsim::reqrep::RR_FRAMES, quick: 100_000, thorough: 3_000_000 }, PlanItem { family: &rsim::reqrep::RR_REPLIERS, quick: 60_000, thorough: 1_500_000 }, PlanItem { family: &rsim::reqrep::RR_FRAMES_REBIND, quick: 40_000, thorough: 1_000_000 }, PlanItem { family: &nsim::frames::HOSTILE_FRAMES, quick: 300, thorough: 15_000 }, PlanItem { family: &nsim::hostile_server::HOSTILE_SERVER, quick: 200, thorough: 10_000 }, PlanItem { family: &nsim::regrace::REG_RACE, quick: 200, thorough: 8_000 }, PlanItem { family: &nsim::rrbulk::BULK, quick: 48, thorough: 1_600 }, PlanItem { family: &nsim::rejstall::REJ_STALL, quick: 64, thorough: 2_000 }],
        }),
        "C05" => Some(CheckPlan {
            property: "C05",
            level: "exploration",
            rule: "1-12 frames of all eight kinds (arbitrary names, Unicode headers, operations, payload sizes 0..1 MiB incl. exactly at and just over the limit) written through FramedWrite over a pipe with seeded short writes/pending and read back through FramedRead under seeded chunking (1-byte chunks, cuts inside the prefix, many frames per chunk); non-trivial = >= 2 frames and >= 2 read chunks; distinct = distinct script bodies",
            assumptions: vec!["the reference payload length is computed from bincode's documented fixed-int layout, independently of the code under test"],
            real: vec!["selium_protocol::MessageCodec (Encoder/Decoder)", "selium_protocol::Frame and payload types", "tokio_util::codec::{FramedRead, FramedWrite}", "selium_protocol::utils::{encode_message_batch, decode_message_batch}"],
            stubbed: vec!["byte transport (scripted SimPipe: every read/write outcome decided by the script)"],
            items: vec![PlanItem { family: &wsim::clean::WIRE_CLEAN, quick: 300_000, thorough: 10_000_000 }],
        }),
        "C06" => Some(CheckPlan {
            property: "C06",
            level: "exploration",
            rule: "a valid encoding (frame stream, batch body, codec payload, compressed payload, or a publisher's compress(batch(encode)) output) is corrupted by 0-5 seeded faults (bit flip, truncation, insertion, deletion, chunk duplication, adversarial 8-byte length fields, random bytes) and fed to the decoder under seeded chunking; non-trivial = at least one corruption applied; distinct = distinct script bodies",
            assumptions: vec!["an allocation request above 256 MiB + 16 x input size counts as unrelated to the input; above 3 GiB it is refused and the resulting abort is attributed by the supervisor"],
            real: vec!["MessageCodec + FramedRead", "decode_message_batch", "StringCodec / BytesCodec / BincodeCodec::decode", "gzip, zlib, zstd, lz4, brotli decompressors of selium-std", "the subscriber's decompress -> unbatch -> decode order (re-stated in the harness; the real Subscriber runs in the N-engine)"],
            stubbed: vec!["byte transport (scripted SimPipe)", "allocator (counting wrapper around the system allocator)"],
            items: vec![PlanItem { family: &wsim::hostile::WIRE_HOSTILE, quick: 300_000, thorough: 10_000_000 }, PlanItem { family: &nsim::hostile::HOSTILE_PEER, quick: 300, thorough: 20_000 }, PlanItem { family: &nsim::hostile_server::HOSTILE_SERVER, quick: 300, thorough: 20_000 }],
        }),
        "C03" => Some(CheckPlan {
            property: "C03",
            level: "exploration",
            rule: "one library publisher and 1-2 library subscribers (registered first, 1 virtual second settle) per run with a configuration drawn from VERIF_SEED: codec x compression algorithm/level x batching off/on(size, interval) x send pattern (send, feed+flush, feed then finish only, send_all) x virtual gaps x message count relative to the batch size x payload classes; mild network faults; non-trivial = >= 2 messages accepted; distinct = distinct script bodies",
            assumptions: vec!["runs in which the client reported a lost connection are inconclusive (the property assumes none)", "a subscriber registration has taken effect 1 virtual second after open() returned"],
            real: N_REAL.to_vec(),
            stubbed: N_STUB.to_vec(),
            items: vec![PlanItem { family: &nsim::e2e::E2E_C03, quick: 600, thorough: 40_000 }],
        }),
        "C04" => Some(CheckPlan {
            property: "C04",
            level: "exploration",
            rule: "1-3 library requestor streams (shared or separate connections), each cloned 1-4 times, 1-30 concurrent request() calls with unique payloads and a virtual timeout of 50 ms..5 s, against a raw replier peer following a per-request script (now / after d / late / never / twice; out of order through delays) bound before or after the requestors, or against the library Replier with handler delays; mild network faults; non-trivial = >= 2 calls returned; distinct = distinct script bodies",
            assumptions: vec!["a call whose reply was scripted well inside the timeout must succeed only on a loss-free network; otherwise a timeout is accepted", "the timeout error must come no earlier than the timeout and no later than timeout + 1 s after the call was issued (virtual clock)", "runs with a lost connection are inconclusive"],
            real: N_REAL.to_vec(),
            stubbed: N_STUB.to_vec(),
            items: vec![PlanItem { family: &nsim::reqrep_e2e::REQREP_E2E, quick: 500, thorough: 30_000 }, PlanItem { family: &nsim::chaos::CHAOS, quick: 150, thorough: 6_000 }, PlanItem { family: &nsim::rrbulk::BULK, quick: 48, thorough: 1_600 }],
        }),
        "C07" => Some(CheckPlan {
            property: "C07",
            level: "exploration",
            rule: "20-40 generated names per run around the boundaries (component lengths 0..3, 63..66, 300; characters in and outside [A-Za-z0-9_-]; '/' missing, doubled, trailing; non-ASCII first/middle/last characters; the reserved word as prefix, exact, inside, in the topic, capitalised), each presented to a raw peer registering in all four roles with an unchecked name, to the library builders inside a task, and to TopicName::try_from/create/Display; plus pairs of similar valid names used concurrently for pub/sub and request/reply; non-trivial = >= 2 names; distinct = distinct script bodies",
            assumptions: vec!["the accept/reject verdict is asserted for all-ASCII input only; for input with non-ASCII characters only: no panic, an answer to every registration, library and parser agree, accepted names round-trip"],
            real: N_REAL.to_vec(),
            stubbed: N_STUB.to_vec(),
            items: vec![PlanItem { family: &nsim::names::NAMES, quick: 400, thorough: 20_000 }],
        }),
        "C12" => Some(CheckPlan {
            property: "C12",
            level: "fault_enumeration",
            rule: "stream kind {publisher, subscriber, requestor, replier} x fault {H1 connection close, partition held for exactly k failed attempts (k = 0..max_attempts+1), server restart (down 0.1/2/8 s)} x 1..max_attempts+3 successive outages x backoff configuration (strategy, step 1 ms..1.5 s, 0-6 attempts, optional cap), drawn from VERIF_SEED; traffic runs continuously on the victim stream and a helper counterpart; non-trivial = at least one outage injected; distinct = distinct script bodies",
            assumptions: vec![
                "messages sent during an outage are not owed; only traffic started >= 1 virtual second after the victim's successful_reconnection event (and after the heal) is judged",
                "a replier is refused (REPLIER_ALREADY_BOUND, charged to the same outage) for as long as the server holds its stale binding, so recovery is demanded of it only with an attempt to spare and, after a partition, only if the remaining schedule lasts >= 4 s; after a close only on a loss-free network",
                "recovery after a server restart is demanded only with >= 3 attempts",
            ],
            real: N_REAL.to_vec(),
            stubbed: {
                let mut v = N_STUB.to_vec();
                v.push("server, in the re-registration-observer family and for the impostor outages only: a raw QUIC endpoint with the real TLS configuration that records / refuses registration frames");
                v
            },
            items: vec![PlanItem { family: &nsim::reconnect::RECONNECT, quick: 504, thorough: 33_600 }, PlanItem { family: &nsim::rereg::REREG, quick: 200, thorough: 8_000 }, PlanItem { family: &nsim::chaos::CHAOS, quick: 150, thorough: 6_000 }, PlanItem { family: &nsim::reqrep_e2e::REQREP_E2E, quick: 300, thorough: 12_000 }],
        }),
        "C13" => Some(CheckPlan {
            property: "C13",
            level: "exploration",
            rule: "a library stream with a generated BackoffStrategy (constant / linear / exponential with factor 0,1,2,3,10,2^32,u64::MAX; step 0..10^9 s; 0-300 attempts; optional cap) is put through one partition held for the whole schedule; every reconnect_attempt event and the exhaustion report are timestamped on the virtual clock; non-trivial = outage injected; distinct = distinct script bodies",
            assumptions: vec!["a failed connect takes quinn's 10 s handshake timeout; the delay of attempt n is the gap to the next attempt minus that, compared with the law computed in u128 with saturation (tolerance -50/+1500 ms)", "schedules longer than the 2*10^5 s observation horizon are judged on the attempts seen"],
            real: N_REAL.to_vec(),
            stubbed: N_STUB.to_vec(),
            items: vec![PlanItem { family: &nsim::reconnect::BACKOFF_TIMING, quick: 300, thorough: 20_000 }],
        }),
        "C14" => Some(CheckPlan {
            property: "C14",
            level: "exploration",
            rule: "8-24 publisher/subscriber stream pairs per run over one pair of connections, each with its own (codec, algorithm, mode, level incl. every explicit level of the supported range) and 1-5 payloads from the classes empty / 1 byte / incompressible / repetitive / structured text / (thorough) near the frame limit, with and without batching; non-trivial = >= 2 messages on some stream; distinct = distinct script bodies",
            assumptions: vec!["transforms are exercised as traffic through the real Publisher/Subscriber, server and QUIC stack"],
            real: N_REAL.to_vec(),
            stubbed: N_STUB.to_vec(),
            items: vec![PlanItem { family: &nsim::e2e::E2E_C14, quick: 200, thorough: 6_000 }, PlanItem { family: &nsim::hostile::INVALID_PAYLOADS, quick: 150, thorough: 5_000 }],
        }),
        "C17" => Some(CheckPlan {
            property: "C17",
            level: "exploration",
            rule: "a raw subscriber with shrunken receive windows stops reading on topic A while a library publisher keeps publishing until the router blocks (server send window shrunk to 32-128 KiB so this takes kilobytes); 0-200 further registrations (subscribers or publishers, from 2-4 raw connections, before and after the stall, in particular more than the 100+1 the registration queue holds) are sent to A; then two library clients connect and exchange one message on topic B; non-trivial = the stall materialised; distinct = distinct script bodies",
            assumptions: vec!["topic B's round trip (two fresh connections, subscriber + publisher open, one message) must complete within 10 virtual seconds of the probe's start", "runs in which the publisher on A never blocked are inconclusive"],
            real: N_REAL.to_vec(),
            stubbed: N_STUB.to_vec(),
            items: vec![PlanItem { family: &nsim::stall::STALL, quick: 60, thorough: 2_000 }],
        }),
        "SMOKE" => Some(CheckPlan {
            property: "SMOKE",
            level: "exploration",
            rule: "N-engine smoke / determinism gate (not a property check)",
            assumptions: vec![],
            real: vec![],
            stubbed: vec![],
            items: vec![PlanItem { family: &nsim::smoke::SMOKE, quick: 400, thorough: 4000 }],
        }),
        _ => None,
    }
}

pub fn properties() -> Vec<&'static str> {
    vec!["C01", "C02", "C03", "C04", "C05", "C06", "C07", "C08", "C09", "C10", "C11", "C12", "C13", "C14", "C15", "C16", "C17"]
}
