//! Which families exist and which of them, in what numbers, make up each property's check.
use crate::core::*;
use crate::rsim;

pub fn families() -> Vec<&'static dyn Family> {
    vec![
        &rsim::pubsub::PS_CLEAN,
        &rsim::pubsub::PS_WAKE,
        &rsim::pubsub::PS_PARTIAL,
        &rsim::pubsub::PS_SHUTDOWN,
        &rsim::pubsub::PS_FAIL_RANDOM,
    ]
}

pub fn family(name: &str) -> Option<&'static dyn Family> {
    families().into_iter().find(|f| f.name() == name)
}

const R_REAL: &[&str] = &[
    "selium_server::topic::pubsub::Topic (poll state machine)",
    "selium_server::topic::reqrep::Topic",
    "selium_server::sink::FanoutMany",
    "selium_server::sink::Router",
    "futures::channel::mpsc registration channel",
    "tokio_stream::StreamMap",
    "selium_protocol::Frame",
];
const R_STUB: &[&str] = &[
    "publisher/requestor/replier streams (scripted MockStream)",
    "subscriber/requestor/replier sinks (scripted MockSink modelling FramedWrite<SendStream>)",
    "executor (harness: eager or wake-driven)",
    "QUIC transport (absent)",
];

pub fn plan(property: &str) -> Option<CheckPlan> {
    match property {
        "C01" => Some(CheckPlan {
            property: "C01",
            level: "exploration",
            rule: "scripts are generated from VERIF_SEED (registrations, feeds, gate toggles, stream ends in seeded order); a run is non-trivial when >= 2 messages were accepted, >= 1 subscriber registered and at least one Pending outcome or stream end actually fired; distinct = distinct script bodies among the non-trivial runs",
            assumptions: vec![
                "mock sink models FramedWrite<SendStream>: start_send buffers, flush/close deliver when the transport accepts, poll_ready flushes at the back-pressure boundary",
                "a router that returns Pending in a poll where no sink was Pending has drained its registration channel",
            ],
            real: R_REAL.to_vec(),
            stubbed: R_STUB.to_vec(),
            items: vec![PlanItem { family: &rsim::pubsub::PS_CLEAN, quick: 200_000, thorough: 5_000_000 }],
        }),
        _ => None,
    }
}

pub fn properties() -> Vec<&'static str> {
    vec!["C01"]
}
