/* Entropy seam for deterministic simulation.
 *
 * Linked statically into the simulator binary, these definitions take precedence over libc's for
 * everything in the executable. Every consumer of OS randomness in the process (std's HashMap
 * keys, rand's thread_rng/OsRng, ring's key generation and ECDSA nonces, quinn's connection ids,
 * tokio-stream's FastRand seed) ends up in getrandom(2) by one of three routes: libc getrandom(),
 * libc getentropy(), or syscall(SYS_getrandom, ...). All three are served from a thread-local
 * SplitMix64 stream which the harness reseeds at the start of each run (each run executes on a
 * fresh OS thread). Every other syscall number is forwarded untouched (std uses syscall() for
 * futexes).
 */
#define _GNU_SOURCE
#include <errno.h>
#include <stdarg.h>
#include <stddef.h>
#include <stdint.h>
#include <sys/syscall.h>
#include <sys/types.h>
#include <time.h>

static __thread uint64_t detrand_state = 0x9E3779B97F4A7C15ULL;
static __thread uint64_t detrand_calls = 0;
static __thread int detrand_sim_mode = 0;
static __thread uint64_t detrand_bytes = 0;

void detrand_reseed(uint64_t seed) {
    detrand_state = seed ^ 0xD1B54A32D192ED03ULL;
    detrand_calls = 0;
    detrand_bytes = 0;
    detrand_sim_mode = 1;
}

uint64_t detrand_call_count(void) { return detrand_calls; }
uint64_t detrand_byte_count(void) { return detrand_bytes; }

static uint64_t detrand_next(void) {
    uint64_t z = (detrand_state += 0x9E3779B97F4A7C15ULL);
    z = (z ^ (z >> 30)) * 0xBF58476D1CE4E5B9ULL;
    z = (z ^ (z >> 27)) * 0x94D049BB133111EBULL;
    return z ^ (z >> 31);
}

static void detrand_fill(void *buf, size_t n) {
    unsigned char *p = (unsigned char *)buf;
    detrand_calls++;
    detrand_bytes += n;
    while (n > 0) {
        uint64_t v = detrand_next();
        size_t k = n < 8 ? n : 8;
        for (size_t i = 0; i < k; i++) p[i] = (unsigned char)(v >> (8 * i));
        p += k;
        n -= k;
    }
}

ssize_t getrandom(void *buf, size_t n, unsigned int flags) {
    (void)flags;
    detrand_fill(buf, n);
    return (ssize_t)n;
}

int getentropy(void *buf, size_t n) {
    if (n > 256) {
        errno = EIO;
        return -1;
    }
    detrand_fill(buf, n);
    return 0;
}

static long raw_syscall6(long nr, long a1, long a2, long a3, long a4, long a5, long a6) {
    long ret;
#if defined(__x86_64__)
    register long r10 __asm__("r10") = a4;
    register long r8 __asm__("r8") = a5;
    register long r9 __asm__("r9") = a6;
    __asm__ volatile("syscall"
                     : "=a"(ret)
                     : "a"(nr), "D"(a1), "S"(a2), "d"(a3), "r"(r10), "r"(r8), "r"(r9)
                     : "rcx", "r11", "memory");
#else
#error "entropy seam: unsupported architecture"
#endif
    return ret;
}

/* Wall-clock seam. Once a thread has been reseeded for a simulation run, CLOCK_REALTIME is frozen
 * for it: rustls stamps session tickets with the wall clock and puts the (obfuscated) ticket age
 * into the ClientHello of a resumed handshake, so a run that happened to take more than a real
 * second under load produced different handshake bytes, different ECDSA signature lengths and a
 * different packetisation. The monotonic clocks are passed through (tokio's virtual clock and the
 * supervisor's wall-time measurements use those). */
int clock_gettime(clockid_t clk, struct timespec *ts) {
    if (detrand_sim_mode && clk == CLOCK_REALTIME) {
        ts->tv_sec = 1767225600; /* 2026-01-01T00:00:00Z */
        ts->tv_nsec = 0;
        return 0;
    }
    long ret = raw_syscall6(SYS_clock_gettime, (long)clk, (long)ts, 0, 0, 0, 0);
    if (ret < 0 && ret > -4096) {
        errno = (int)-ret;
        return -1;
    }
    return 0;
}

long syscall(long nr, ...) {
    va_list ap;
    va_start(ap, nr);
    long a1 = va_arg(ap, long);
    long a2 = va_arg(ap, long);
    long a3 = va_arg(ap, long);
    long a4 = va_arg(ap, long);
    long a5 = va_arg(ap, long);
    long a6 = va_arg(ap, long);
    va_end(ap);
    if (nr == SYS_getrandom) {
        detrand_fill((void *)a1, (size_t)a2);
        return a2;
    }
    long ret = raw_syscall6(nr, a1, a2, a3, a4, a5, a6);
    if (ret < 0 && ret > -4096) {
        errno = (int)-ret;
        return -1;
    }
    return ret;
}
