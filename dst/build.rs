fn main() {
    println!("cargo:rerun-if-changed=csrc/entropy.c");
    cc::Build::new().file("csrc/entropy.c").opt_level(2).compile("detrand");
}
