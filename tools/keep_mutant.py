#!/usr/bin/env python3
"""keep_mutant.py <mutant-id> <agent-out-dir> <property> <needs> <confirm-line> <caught-by(comma)> <missed-by(comma)> [note]
Copies patch.diff, demo/ and README.md of a confirmed seeded change to /verif/seeded/<id>/ and writes meta.json."""
import json, os, shutil, sys
mid, src, prop, needs, confirm, caught, missed = sys.argv[1:8]
note = sys.argv[8] if len(sys.argv) > 8 else ""
dst = os.path.join("/verif/seeded", mid)
os.makedirs(dst, exist_ok=True)
shutil.copy(os.path.join(src, "patch.diff"), os.path.join(dst, "patch.diff"))
if os.path.isdir(os.path.join(dst, "demo")):
    shutil.rmtree(os.path.join(dst, "demo"))
shutil.copytree(os.path.join(src, "demo"), os.path.join(dst, "demo"))
if os.path.exists(os.path.join(src, "README.md")):
    shutil.copy(os.path.join(src, "README.md"), os.path.join(dst, "README.md"))
meta = {
    "id": mid,
    "breaks_property": prop,
    "origin": "independent sub-agent given only the property text and a scratch worktree of /repo",
    "needs_to_manifest": needs,
    "confirmed_by_me": {
        "how": "tools/confirm_mutant.sh in the scratch worktree: demonstration at HEAD, demonstration with the change, pinned suite with the change",
        "result": confirm,
    },
    "checks_run_against_it": "tools/try_mutant.sh (git -C /repo apply, ./dst.sh check <P> --tier quick, git checkout)",
    "caught_by": [c for c in caught.split(",") if c],
    "not_caught_by": [c for c in missed.split(",") if c],
    "note": note,
}
json.dump(meta, open(os.path.join(dst, "meta.json"), "w"), indent=1)
print("kept", dst)
