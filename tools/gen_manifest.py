#!/usr/bin/env python3
"""Generates /verif/MANIFEST.json from the table below and validates it against the schema."""
import json, subprocess, sys, os

HERE = os.path.dirname(os.path.dirname(os.path.abspath(__file__)))
ALL = [f"C{i:02d}" for i in range(1, 18)]

# id -> (level category, engine, technique, level text, level note, design ref)
CHECKS = {
    "C01": ("exploration", "R+N", "deterministic simulation: seeded schedules of the real pub/sub router against scripted peers, fan-out reference model",
            "Seeded search over back-pressure / registration / stream-end schedules of the production pub/sub router (real Topic::poll, FanoutMany, StreamMap, mpsc channel) against a one-vector reference model of the accept order; every subscriber's hand-over sequence must be one contiguous, duplicate-free run of it and be fully flushed at quiescence. Sampling, not proof.",
            "Trusts the mock sink as a model of FramedWrite<SendStream>; bounds: <=3 publishers, <=4 subscribers, <=40 messages per run.",
            "DESIGN.md §5 C01"),
}

PENDING_REASON = "no check built yet in this session; the design for it is in DESIGN.md §5 (not claimed until the check exists and passes on the unchanged tree)"

def main():
    hooks_commits = subprocess.run(["git", "-C", "/repo", "log", "--format=%h %s"], capture_output=True, text=True).stdout.splitlines()
    hook_shas = [l.split()[0] for l in hooks_commits if l.split(" ", 1)[1].startswith("verif hook")]
    checks = []
    for pid in ALL:
        if pid not in CHECKS:
            continue
        cat, engine, technique, text, note, ref = CHECKS[pid]
        checks.append({
            "property_id": pid,
            "quick_cmd": f"./dst.sh check {pid} --tier quick",
            "thorough_cmd": f"./dst.sh check {pid} --tier thorough",
            "evidence_file": f"/verif/evidence/{pid}.json",
            "replay_cmd_template": "./dst.sh replay {path}",
            "engine": engine,
            "level_claimed": {"category": cat, "text": text, "design_ref": ref},
            "level_note": note,
            "technique": technique,
        })
    manifest = {
        "version": 1,
        "setup_cmd": "cd /verif/dst && CARGO_NET_OFFLINE=true cargo build --release --offline",
        "hooks": {
            "guard": "--cfg selium_verif",
            "enable": "RUSTFLAGS via /verif/dst/.cargo/config.toml: --cfg selium_verif --cfg tokio_unstable (the harness crate path-depends on /repo/{client,server,protocol,standard,tools})",
            "baseline_off_cmd": "cd /repo && cargo test --workspace --no-fail-fast --offline",
            "source_commits": hook_shas,
            "add_only": True,
        },
        "engines": [
            {"name": "R router-sim", "path": "/verif/dst/src/rsim", "serves_properties": [p for p in ALL if p in CHECKS and "R" in CHECKS[p][1]], "kind_free_text": "real topic routers polled by a harness executor against scripted mock sinks/streams"},
            {"name": "N net-sim", "path": "/verif/dst/src/nsim", "serves_properties": [p for p in ALL if p in CHECKS and "N" in CHECKS[p][1]], "kind_free_text": "real client+server+quinn+rustls on a paused tokio clock over an in-memory UDP network with seeded faults"},
            {"name": "W wire-sim", "path": "/verif/dst/src/wsim", "serves_properties": [p for p in ALL if p in CHECKS and "W" in CHECKS[p][1]], "kind_free_text": "real MessageCodec + FramedRead/FramedWrite over a scripted byte pipe"},
        ],
        "checks": checks,
        "notes": "All checks are deterministic simulations driven by VERIF_SEED (default 20261002). Known findings: /verif/known_findings.json. See DESIGN.md.",
        "not_applicable": [{"property_id": p, "reason": PENDING_REASON} for p in ALL if p not in CHECKS],
    }
    path = os.path.join(HERE, "MANIFEST.json")
    json.dump(manifest, open(path, "w"), indent=1)
    try:
        import jsonschema
        jsonschema.validate(manifest, json.load(open("/root/.vp/MANIFEST.schema.json")))
        print("MANIFEST.json valid;", len(checks), "checks,", len(manifest["not_applicable"]), "not claimed")
    except ImportError:
        print("jsonschema not available; run with python3-vt", file=sys.stderr)

if __name__ == "__main__":
    main()
