#!/usr/bin/env python3
"""Generates /verif/MANIFEST.json from the table below and validates it against the schema."""
import json, subprocess, sys, os

HERE = os.path.dirname(os.path.dirname(os.path.abspath(__file__)))
ALL = [f"C{i:02d}" for i in range(1, 18)]

# id -> (level category, engine, technique, level text, level note, design ref)
CHECKS = {
    "C01": ("exploration", "R+N", "deterministic simulation: seeded schedules of the real pub/sub router against scripted peers (fan-out reference model), plus concurrent topics with similar names through the whole simulated stack",
            "Seeded search over back-pressure / registration / stream-end schedules of the production pub/sub router (real Topic::poll, FanoutMany, StreamMap, mpsc channel) against a one-vector reference model of the accept order; every healthy subscriber's hand-over sequence must be one contiguous, duplicate-free run of it and be fully flushed at quiescence, also while other subscribers fail. N part: 2-3 topics whose names share a namespace or topic component carry traffic concurrently over the real client/server/QUIC stack; every subscriber must receive exactly its own topic's messages in each publisher's order. Sampling, not proof.",
            "Trusts the mock sink as a model of FramedWrite<SendStream>; bounds: <=3 publishers, <=4 subscribers, <=40 messages per run.",
            "DESIGN.md §5 C01"),
    "C02": ("exploration", "R", "deterministic simulation: seeded schedules of the real request/reply router against scripted requestors and a scripted replier, routing reference model",
            "Seeded search over request/reply/bind/back-pressure schedules of the production request/reply router (real Topic::poll, Router, StreamMap) with forged and ill-formed routing tags; every request reaches the replier at most once, in order, tagged unforgeably; every well-tagged reply reaches exactly its requestor once, intact; ill-tagged replies reach nobody. Sampling, not proof.",
            "Trusts the mock sink/stream model; bounds: <=4 requestors, 1 replier (re-binding is C10), <=30 requests per run.",
            "DESIGN.md §5 C02"),
    "C03": ("exploration", "N", "deterministic simulation: real Publisher/Subscriber + server + QUIC over a simulated network and virtual clock, configuration swarm",
            "Whole-stack runs (real client library, real server, real quinn/rustls over SimNet, paused clock) with a configuration swarm per run: codec x compression algorithm/level x batching (size, interval) x send pattern (send, feed+flush, feed then finish only, send_all) x virtual gaps x message counts around the batch size x payload classes, under mild loss/duplication/reordering. Every subscriber registered before the first send must yield exactly the accepted items in order; finish() returning Ok obliges delivery of everything accepted, including a partial batch.",
            "Runs with a lost connection are inconclusive; registration counts as effective 1 virtual second after open(); batches that would exceed the frame limit are not generated.",
            "DESIGN.md §5 C03"),
    "C04": ("exploration", "N", "deterministic simulation: real Requestor streams and clones against a scripted raw replier over the simulated network, reply attribution and timeout timing on the virtual clock",
            "1-3 library requestor streams (shared or separate connections), cloned 1-4 times, issue 1-30 concurrent request() calls with unique payloads; a raw replier peer (or the library Replier with handler delays) answers per script: now, delayed, out of order, after the timeout, never, twice. Every Ok must carry the reply to exactly that call's request and not precede the reply's emission; a missing or late reply must surface as the timeout error no earlier than the configured timeout and no later than timeout + 1 s (virtual); late and duplicate replies must never satisfy another call.",
            "A reply scripted well inside the timeout is demanded only on a loss-free network; runs with a lost connection are inconclusive.",
            "DESIGN.md §5 C04"),
    "C05": ("exploration", "W", "deterministic simulation: real MessageCodec under FramedRead/FramedWrite over a scripted byte pipe (short writes, pending, seeded chunking)",
            "Frame sequences of all eight kinds cross a simulated byte pipe whose every write and read outcome is scripted (short writes, Pending, 1-byte chunks, cuts inside the length prefix, several frames per chunk); the decoded sequence must equal the written one, all bytes must be consumed, each prefix must equal a payload length computed independently from bincode's layout, oversize payloads/prefixes must be refused (the latter as soon as the 9 header bytes are in, with no payload buffered), batches must unbatch to the same messages.",
            "Sampling over frames/chunkings, not proof; payload sizes near 1 MiB are rare (1-2 % of runs).",
            "DESIGN.md §5 C05"),
    "C06": ("exploration", "W+N", "deterministic simulation with fault injection: seeded corruption of valid encodings fed to every decoder through the scripted pipe, panic and allocation guards",
            "Valid encodings (frame streams, batch bodies, codec payloads, compressed payloads, a publisher's compress(batch(encode)) output) are corrupted by seeded faults (bit flips, truncation, insertion/deletion, duplicated chunks, adversarial length fields up to 2^64-1, random bytes) and decoded under seeded chunking; a panic, an allocation request beyond 256 MiB + 16 x input, a worker abort or a hang is a violation; uncorrupted inputs must still decode. N part: a raw peer sends the same kinds of crafted payloads to a real library Subscriber, Requestor and Replier and raw garbage to the real server; no task may panic, the consumer must reach the sentinel/answer, and the server must still serve a clean round trip.",
            "Third-party decompressors are exercised as black boxes through selium-std's wrappers; N part runs few hundred scenarios per quick run.",
            "DESIGN.md §5 C06"),
    "C07": ("exploration", "N", "deterministic simulation: generated topic names presented by raw peers and library clients to the simulated server, plus concurrent use of similar names",
            "Names generated around every boundary of the grammar (component lengths, character classes, '/' placement, non-ASCII characters in each position, the reserved word) are sent unchecked by a raw peer in all four roles to the real server, given to all four library builders inside tasks, and to TopicName::try_from/create/Display. For all-ASCII input the verdict must be exactly the stated rule on every path (server: Ok vs Error{INVALID_TOPIC_NAME}); never a panic or an unanswered registration; accepted names print back unchanged; pairs of similar valid names used concurrently never share pub/sub or request/reply traffic.",
            "For input with non-ASCII characters the accept/reject verdict itself is not asserted (the statement does not pin down Unicode classes); only absence of panics, agreement between library and parser, and round-tripping.",
            "DESIGN.md §5 C07"),
    "C08": ("fault_enumeration", "R", "deterministic simulation with fault injection: complete list of peer-failure placements, each under seeded schedules",
            "Every point of a listed space of fault placements (failing peer position x sink operation x message index; failing/ending stream x index; bound replier sink failing, then a fresh replier) is executed against the real routers under seeded ready/pending schedules of the healthy peers, plus random one- and two-peer failures; healthy peers must satisfy the C01/C02 models, the router must not panic, a failed replier must be replaceable.",
            "A failure is a sink operation returning Err from a scripted point on, or a stream yielding Err/ending; bounds as stated in the evidence (exhaustive_space).",
            "DESIGN.md §5 C08"),
    "C09": ("exploration", "R", "deterministic simulation: wake-driven executor and per-poll work budget over seeded router schedules",
            "The real routers are polled only when their waker fired; every input event wakes exactly the waker the router registered for it. At quiescence everything accepted must be delivered and flushed and every queued registration adopted (a lost wake-up fails this); a mock polled >10000 times inside one poll, or work beyond a product bound, is a spin. Partial topologies (no peers, one side only) included.",
            "Trusts the mocks to wake exactly on scripted state changes; single router per run.",
            "DESIGN.md §5 C09"),
    "C10": ("exploration", "R", "deterministic simulation: seeded replier bind/reject/rebind histories against the real request/reply router",
            "Histories of 1-5 replier registrations and departures interleaved with traffic and back-pressure (also on rejected repliers' sinks): requests never alternate between repliers, a rejected replier gets exactly one REPLIER_ALREADY_BOUND frame, flushed, then close, and never a request; a replier registering with no live rival is bound and served.",
            "A departed/failed replier counts as gone once the router has had a parked poll since; N smoke (shutdown-live family): a second library replier on a bound topic must surface the bind error and a new one must bind and serve once the first is gone.",
            "DESIGN.md §5 C10"),
    "C11": ("exploration", "R+N", "deterministic simulation: seeded hostile frame sequences fed to the real request/reply router",
            "Requestors and repliers additionally send every other frame kind mid-stream (Ok, BatchMessage, Error, Register*, frame-limit requests); the router must not panic or spin and every non-hostile peer's traffic must still satisfy the C02 model. N part: raw peers open streams on the real server with every kind of first frame, on fresh topics and on topics already used in either pattern (role/kind mismatch), send every frame kind after a valid registration including requests that exceed the frame limit only after the routing tag is added; every stream told Ok gets a role probe (served, or refused with an error frame; never abandoned), every registration must be answered, and library clients must still complete round trips on the same and on other topics.",
            "A non-registration first frame closed without an answer is recorded, not alarmed on; a peer that itself sent wrong-kind frames may be dropped.",
            "DESIGN.md §5 C11"),
    "C12": ("fault_enumeration", "N", "deterministic simulation with fault injection: connection close hook, partitions held for an exact number of failed attempts, server restarts, repeated beyond the retry budget",
            "A victim stream of each kind (publisher, subscriber, requestor, replier; real library code) carries continuous traffic with a helper counterpart while outages are injected: the H1 close hook, a partition that the harness heals exactly when attempt k+1 is announced (k = 0..max_attempts+1), a server restart (nothing survives). Attempts must be numbered from 1 after every loss the client reports; an outage within the budget must end in a stable recovery after which newly started traffic is delivered/answered; an outage that exhausts the budget must surface as too-many-retries instead of hanging; more outages than max_attempts are survived when each stays within the budget.",
            "Traffic during an outage is not owed; the replier is granted one spare attempt (stale binding on the server), restarts are judged only with >= 3 attempts; the unrecoverable-error clause is exercised by replacing the server with an impostor that refuses re-registrations with a non-bind error code (must be reported after one attempt).",
            "DESIGN.md §5 C12"),
    "C13": ("exploration", "N", "deterministic simulation: reconnect attempt times measured on the virtual clock during a partition held for the whole schedule",
            "The backoff iterator is pure; what a user relies on is when the retries happen. A library stream with a generated strategy (constant / linear / exponential with factors 0..u64::MAX, steps 0..10^9 s, 0-300 attempts, optional cap) is partitioned for its whole schedule; every reconnect_attempt event and the exhaustion report are timestamped on the virtual clock and compared with the law computed in u128 with saturation; numbering 1..max, exact count, clamp to the cap, no panic of the reconnecting task (overflow panics surface with their source location).",
            "A failed connect costs quinn's 10 s handshake timeout, subtracted from each gap (tolerance -50/+1500 ms); schedules beyond the 2*10^5 s horizon are judged on the attempts observed.",
            "DESIGN.md §5 C13"),
    "C14": ("exploration", "N", "deterministic simulation: transform configurations exercised as traffic through the simulated system, plus raw-peer injection of invalid payloads",
            "8-24 publisher/subscriber stream pairs per run, each with its own codec and compression algorithm/mode/level (every explicit level of the supported ranges is drawn) and payloads from the classes empty / 1 byte / incompressible / repetitive / structured / (thorough) near the frame limit, with and without batching, so the wire composition encode -> batch -> compress -> decompress -> unbatch -> decode runs; every received value must equal the sent one in order. A raw publisher injects payloads that are invalid for the subscriber's codec (invalid UTF-8, truncated bincode): they must surface as Err, valid ones as the value.",
            "Pure at the function level; decided as traffic (DESIGN.md §0). 1 MiB payloads only in the thorough tier.",
            "DESIGN.md §5 C14"),
    "C15": ("fault_enumeration", "N", "deterministic simulation: the full client x server identity matrix over real rustls under seeded handshake-time network faults",
            "All pairings of client identity {CA-issued, issued by another CA, self-signed, none} and server identity {CA-issued, issued by another CA}, keys freshly generated per run by the bundled generator from the run's entropy stream, handshakes under seeded loss/duplication/reordering; the refused peer is played by the library client and by a raw quinn client. connect + first registration + one delivered message must succeed iff both sides chain to the configured CA; otherwise the error must appear no later than the first registration and a trusted subscriber must receive nothing from the refused peer.",
            "Certificate expiry is not exercised (fixed validity so no wall clock enters); real rustls verifiers, quic::server_config and configure_client run unmodified.",
            "DESIGN.md §5 C15"),
    "C16": ("exploration", "R", "deterministic simulation: registration channel closed at a seeded step of pub/sub and request/reply router schedules",
            "The sender returned by Topic::pair() is closed or dropped at an arbitrary step (idle, item buffered, flush pending, one side only, rejection in progress); once every sink accepts data the router future must complete within the poll budget and (pub/sub) every accepted item must be handed over and flushed first.",
            "close_channel on the pair() sender is what Server::shutdown does; the N smoke (shutdown-live) runs Server::shutdown itself (H4 hook) under live pub/sub and request/reply traffic and demands that it returns within 30 virtual seconds.",
            "DESIGN.md §5 C16"),
    "C17": ("exploration", "N", "deterministic simulation with fault injection: stalled reader and over-full registration queue on one topic, liveness probe on another, over the simulated network",
            "A raw subscriber with shrunken receive windows stops reading on topic A (server send window shrunk so the router blocks after kilobytes); up to 200 further registrations from several raw connections queue on A, before and after the stall, in particular more than the 100+1 the registration queue holds; then two fresh library clients must connect, open a subscriber and a publisher on topic B and exchange a message within 10 virtual seconds.",
            "Runs where the stall did not materialise are inconclusive; one stalled topic per run.",
            "DESIGN.md §5 C17"),
}

# later additions to a check, appended to its level text (see DESIGN.md §5 for each)
ADDENDA_3 = {
    "C01": " The N family pads messages up to 40 kB (frames reach the server's decoder in several reads). Chaos family: continuous traffic under seeded closes, partitions and server restarts; no subscriber may yield a foreign or duplicated message, and messages sent away from their publisher's outages arrive in order. Registration-race family: publishers and subscribers registering simultaneously on a new topic must all end up on one router.",
    "C04": " Chaos family: under seeded closes, partitions and server restarts every Ok reply must answer its own call.",
    "C12": " Chaos family: once the seeded faults have stopped, every stream that kept its retry budget delivers / is answered again within 25 virtual seconds. The cloned-requestor outage family of C04 also runs here.",
    "C02": " A requestor whose request stream ended but whose sink works (half-closed) stays owed its replies; the departures family runs for C02 too.",
    "C03": " A quarter of the runs have subscriber churn around the judged subscribers; a client stream dropped by the server on a loss-free network is a violation.",
    "C06": " Long runs (up to 40000) of well-formed frames that carry nothing, with the victim on a 2 MiB stack; hostile-server family: the real client against a raw endpoint answering registrations with crafted Error texts (long, multi-byte across cut-offs, not UTF-8), wrong-kind frames, non-frames, nothing.",
    "C08": " R scripts include connection deaths (stream end and sink failure at the same instant).",
    "C10": " N smoke: a standby library replier (40 attempts, 300 ms apart) must take over once the bound replier left. Registration-race family: simultaneous first registrations of several repliers on a new topic under seeded yield injection at the server's locks: exactly one bound, all others explicitly refused.",
    "C11": " hostile-server family: an Error answer must surface as an error from open()/listen(), nothing may panic. Registration-race family: simultaneous first registrations of mixed kinds on a new topic: one kind wins, the other is refused with TOPIC_KIND_MISMATCH, every accepted peer is served.",
    "C13": " The order of the three builder setters is seeded.",
    "C15": " Fourth server identity (issued by the other CA, presented as its own full chain; 16 pairings); renewal also after a first client was built from the same paths; the server is built by Server::try_from(UserArgs) (hook H5).",
    "C17": " Topic B is also probed over the very connection whose publisher is blocked on topic A.",
}
ADDENDA_5 = {
    "C01": " R scripts contain bursts of 100-400 items ready at once; at quiescence a live router must have drained every registered publisher stream. The pubsub-shutdown family (registration channel closed at a seeded step) runs for C01 too. Multi-topic: in a fifth of the runs a publisher that lays out its own frames sends a message whose frame payload is 0-100 bytes short of the frame limit, then a small one; both must arrive; a stream dropped on a loss-free network is a violation.",
    "C02": " R scripts contain bursts of 100-300 requests; a third of the slow requestors write every request frame in two pieces split 1-12 bytes before its end.",
    "C09": " Scripts contain bursts of 100-400 ready items (a router that bounds its work per step must arrange its own wake-up).",
    "C10": " The reqrep-fail-random family (failing sinks, the rejected repliers' among them) runs for C10 too: the bound replier's traffic must be unaffected.",
    "C11": " hostile-frames: a raw publisher hand-encodes a message whose frame payload is 0-40 bytes short of the limit while a library subscriber listens; the next message must still reach that subscriber.",
    "C14": " invalid-payloads compares every yielded value with the message sent and interleaves valid messages whose compressed form lost its last 1-4 bytes (error or the message, nothing else; later payloads unaffected).",
}
ADDENDA_6 = {
    "C01": " In a fifth of the multi-topic runs the hand-encoding publisher does not wait for the registration answer (registration and messages leave in one write).",
    "C04": " In a quarter of the runs a requestor that is not this library sends requests with a forged cid and request ids the library streams use too; no library call may return a reply that is not its own.",
    "C07": " Names padded with ASCII/Unicode white space; every violating name is registered once more in a role of the other messaging pattern and must get the same refusal.",
    "C11": " Registrations whose violating name fills the frame (0-300 bytes below the limit) must still be answered with an error frame.",
    "C14": " A quarter of the byte payloads already are compressed streams (zstd/gzip/zlib/lz4/brotli output).",
}
ADDENDA_7 = {
    "C04": " Bulk family: 2-32 clones of one library requestor send requests of 20-900 kB at once to the library replier (one request at a time); every call must have returned, with its own reply or the timeout error, by its timeout plus 2 s.",
    "C11": " Bulk family: the same well-formed bulk traffic must leave the topic usable: a fresh requestor's small request 30 virtual seconds later is answered.",
    "C12": " The first registration frame must carry the configured settings (topic, retention, operations); publisher victims publish in feed-bursts large enough that a loss is first noticed by poll_ready.",
    "C03": " An item whose encoding is far below the frame limit must not be refused as too large.",
}
ADDENDA_8 = {
    "C10": " Stalled-rejection family: raw peers register as further repliers behind a 9-48 byte stream window and read nothing (the pending outcome of the rejected sink, held for good); the bound replier's traffic must continue and a fresh requestor must be served.",
    "C11": " Stalled-rejection family: the same peers must not make the topic unusable for others.",
    "C12": " After every error the victim stream reports it is asked once more: another error or the end, never a panic.",
    "C13": " Exponential factors include powers of two (2, 4, 16, 2^32, 2^63).",
    "C14": " Invalid strings include a text cut inside its last multi-byte character.",
}
ADDENDA = {
    "C02": " N part (slow-requestors): raw requestors behind 1 kB-1 MB stream windows burst requests at a library replier, stall, then read; each must receive exactly its own replies, once, intact, cid stripped.",
    "C03": " Also: truly empty items; 1-2 MB made of thousands of small messages under batch sizes up to 20000 (batches cut by encoded size); subscribers read during or only after publishing.",
    "C05": " Refused (oversize) frames go through the same FramedWrite as the others, which stays in use: a refusal must leave no byte on the wire.",
    "C06": " Mutations include crafted format heads (brotli/zstd/lz4/gzip/zlib window and content-size fields); each stage of the subscriber chain is guarded separately; the N part runs under a whole-world allocation guard.",
    "C08": " N part (peer-loss): raw peers of every role fail through the real stack (CONNECTION_CLOSE, silent death found by the idle timeout, STOP_SENDING/RESET_STREAM, finish-and-drop, stalled then dead) while surviving subscribers/requestors are judged exactly; a failed replier must be replaceable by a retrying library replier.",
    "C11": " A replier that sent an odd frame and is kept bound must keep being read (frames left in a bound replier's stream at quiescence are a lost wake-up).",
    "C12": " Seventh fault class: a second close landing between the re-registration and its answer (a connection error, hence recoverable). Second family (re-registration-observer): the real client against a recording stub server; every registration frame after a connection loss must equal the first (topic, retention, operations).",
    "C13": " Clock-free part, stated as such: the items of the configured schedule are also compared one by one with the law in u128 nanoseconds (count, numbering, exact value, saturation, cap), because a virtual clock cannot tell 600 years from 10^20 years.",
    "C15": " Third server identity: the trusted certificate presented as a PEM full-chain file that also carries the other CA (12 pairings); in a third of the runs the generated set was renewed in place over longer files.",
    "C16": " The close goes through the server's topic::Sender wrapper while another copy of the sender is alive; the N smoke also runs with a registration genuinely in flight (zero-window peer).",
    "C17": " In a third of the scripts topic A also has a zero-window peer to which even the registration answer cannot be delivered.",
}
ENGINE_OVERRIDE = {"C02": "R+N", "C08": "R+N", "C16": "R+N", "C10": "R+N"}

PENDING_REASON = "no check built yet in this session; the design for it is in DESIGN.md §5 (not claimed until the check exists and passes on the unchanged tree)"

def main():
    hooks_commits = subprocess.run(["git", "-C", "/repo", "log", "--format=%h %s"], capture_output=True, text=True).stdout.splitlines()
    hook_shas = [l.split()[0] for l in hooks_commits if l.split(" ", 1)[1].startswith("verif hook")]
    checks = []
    for pid in ALL:
        if pid not in CHECKS:
            continue
        cat, engine, technique, text, note, ref = CHECKS[pid]
        text = text + ADDENDA.get(pid, "") + ADDENDA_3.get(pid, "") + ADDENDA_5.get(pid, "") + ADDENDA_6.get(pid, "") + ADDENDA_7.get(pid, "") + ADDENDA_8.get(pid, "")
        engine = ENGINE_OVERRIDE.get(pid, engine)
        checks.append({
            "property_id": pid,
            "quick_cmd": f"./dst.sh check {pid} --tier quick",
            "thorough_cmd": f"./dst.sh check {pid} --tier thorough",
            "evidence_file": f"/verif/evidence/{pid}.json",
            "replay_cmd_template": "./dst.sh replay {path}",
            "engine": engine,
            "level_claimed": {"category": cat, "text": text, "design_ref": ref},
            "level_note": note,
            "technique": technique,
        })
    manifest = {
        "version": 1,
        "setup_cmd": "cd /verif/dst && CARGO_NET_OFFLINE=true cargo build --release --offline",
        "hooks": {
            "guard": "--cfg selium_verif",
            "enable": "RUSTFLAGS via /verif/dst/.cargo/config.toml: --cfg selium_verif --cfg tokio_unstable (the harness crate path-depends on /repo/{client,server,protocol,standard,tools})",
            "baseline_off_cmd": "cd /repo && cargo test --workspace --no-fail-fast --offline",
            "source_commits": hook_shas,
            "add_only": True,
        },
        "engines": [
            {"name": "R router-sim", "path": "/verif/dst/src/rsim", "serves_properties": [p for p in ALL if p in CHECKS and "R" in ENGINE_OVERRIDE.get(p, CHECKS[p][1])], "kind_free_text": "real topic routers polled by a harness executor against scripted mock sinks/streams"},
            {"name": "N net-sim", "path": "/verif/dst/src/nsim", "serves_properties": [p for p in ALL if p in CHECKS and "N" in ENGINE_OVERRIDE.get(p, CHECKS[p][1])], "kind_free_text": "real client+server+quinn+rustls on a paused tokio clock over an in-memory UDP network with seeded faults"},
            {"name": "W wire-sim", "path": "/verif/dst/src/wsim", "serves_properties": [p for p in ALL if p in CHECKS and "W" in CHECKS[p][1]], "kind_free_text": "real MessageCodec + FramedRead/FramedWrite over a scripted byte pipe"},
        ],
        "checks": checks,
        "notes": "All checks are deterministic simulations driven by VERIF_SEED (default 20261002). Known findings: /verif/known_findings.json. Seams outside /repo: vendored copies of quinn, quinn-proto (clock reads), tokio-stream (StreamMap seed counter) and tokio (seeded yield at lock/channel acquisitions) under /verif/vendor, patched into the harness workspace only; an entropy/wall-clock shim (dst/csrc/entropy.c). See DESIGN.md.",
        "not_applicable": [{"property_id": p, "reason": PENDING_REASON} for p in ALL if p not in CHECKS],
    }
    path = os.path.join(HERE, "MANIFEST.json")
    json.dump(manifest, open(path, "w"), indent=1)
    try:
        import jsonschema
        jsonschema.validate(manifest, json.load(open("/root/.vp/MANIFEST.schema.json")))
        print("MANIFEST.json valid;", len(checks), "checks,", len(manifest["not_applicable"]), "not claimed")
    except ImportError:
        print("jsonschema not available; run with python3-vt", file=sys.stderr)

if __name__ == "__main__":
    main()
