#!/usr/bin/env python3
"""Rebuilds known_findings.json from findings/*.json (replay files) and the table below."""
import json, glob, os
HERE = os.path.dirname(os.path.dirname(os.path.abspath(__file__)))
# filename prefix -> (status, commit, what)
TABLE = [
 ('C01-unflushed-tail', 'fixed', '242bb66', "items handed to a subscriber stay unflushed forever when the last publisher stream ends while that subscriber's flush is Pending (pubsub.rs early-park branch)"),
 ('C01-missed-after-registration', 'fixed', 'e84e395', 'pub/sub router adopts one queued registration per wake-up: reg_pub,reg_pub,reg_sub,reg_sub then feed -> second subscriber misses the first message'),
 ('C01-registration-not-adopted', 'fixed', 'e84e395', 'registration queued behind another one is never adopted by the pub/sub router unless unrelated traffic wakes it (lost wake-up on the registration channel)'),
 ('C02-reply-overwritten', 'fixed', '923cd24', 'a reply buffered for a requestor whose sink is Pending is overwritten by the next reply polled from the replier'),
 ('C02-reqrep-unflushed-tail', 'fixed', '8c753a3', 'reply handed to a requestor stays unflushed when the replier is gone and all requestor streams ended while that flush was Pending (reqrep.rs early-park branch)'),
 ('C08-panic-server-src-sink-fanout-many-rs-98', 'fixed', 'c1cacce', 'a subscriber that is not last in FanoutMany failing in start_send panics the pub/sub router: index out of bounds at fanout_many.rs:98'),
 ('C08-panic-server-src-topic-reqrep-rs-99', 'fixed', '3cf8cae', 'bound replier sink failing in poll_ready panics the request/reply router (unwrap at reqrep.rs:99)'),
 ('C08-panic-server-src-topic-reqrep-rs-100', 'fixed', '3cf8cae', 'bound replier sink failing in start_send panics the request/reply router (unwrap at reqrep.rs:100)'),
 ('C08-panic-server-src-topic-reqrep-rs-201', 'fixed', '3cf8cae', 'replier sink failing in poll_flush when its stream ends panics the router (unwrap at reqrep.rs:201)'),
 ('C08-panic-server-src-topic-reqrep-rs-249', 'fixed', '3cf8cae', 'replier sink failing in poll_flush with no requestor streams panics the router (unwrap at reqrep.rs:249)'),
 ('C08-panic-server-src-topic-reqrep-rs-267', 'fixed', '3cf8cae', 'replier sink failing in the final poll_flush panics the router (unwrap at reqrep.rs:267)'),
 ('C09-spin-replier-only', 'fixed', '541fdb1', 'request/reply router spins inside poll() with a replier bound and no requestor stream (script: reg_rep)'),
 ('C09-spin-requestor-only', 'fixed', '541fdb1', 'request/reply router spins inside poll() with a requestor registered and no replier bound (script: reg_req)'),
 ('C09-spin-requestor-sink-only', 'fixed', '541fdb1', 'request/reply router spins inside poll() after the only requestor stream ended with no replier bound'),
 ('C09-reqrep-registration-not-adopted', 'fixed', 'e319019', 'request/reply router parks without polling the registration channel to Pending: reg_req,reg_rep -> replier never adopted under a wake-driven executor'),
 ('C09-reqrep-request-lost-late-adoption', 'fixed', 'e319019', 'requests accepted while a replier registration is still queued behind other registrations are dropped although the replier registered first'),
 ('C10-rejection-never-closed', 'fixed', 'fe817a1', 'rejected replier: error frame is written but the sink is never closed/flushed until unrelated traffic arrives'),
 ('C10-rejection-slot-overwritten', 'fixed', 'fe817a1', 'second late replier overwrites the single rejection slot: the first rejected sink is dropped with its error frame unflushed'),
 ('C11-unwrap-message-panic', 'fixed', 'cd2996c', 'a requestor (reqrep.rs:218) or replier (router.rs:105) sending a non-Message frame panics the router in Frame::unwrap_message (frame.rs:106)'),
 ('C03-messages-lost-batched', 'fixed', '2222222', 'with batching, the final partially filled batch never reaches the subscriber although finish() returned Ok (framed into the FramedWrite buffer, QUIC stream finished underneath it)'),
 ('C03-messages-lost-unbatched', 'fixed', '2222222', 'items accepted with feed() are dropped by finish(): the framed writer is not flushed before the QUIC stream is finished'),
 ('C03-messages-differ-batched', 'fixed', '2222222', 'batched stream: final partial batch lost and earlier batch reversed (both defects at once)'),
 ('C03-messages-reordered-batched', 'fixed', '3333333', 'members of every batch are yielded in reverse order (Subscriber pops the decoded batch from the tail)'),
 ('C12-replier-budget-not-per-outage', 'fixed', '4444444', 'Replier: the attempt iterator is created once per listen(), so the second outage announces its first reconnect as attempt 2 (lifetime budget instead of per-outage budget)'),
 ('C12-replier-gave-up-within-budget', 'fixed', '4444444', 'Replier gives up with too-many-retries in an outage that needed fewer attempts than configured because earlier outages consumed the budget'),
 ('C12-requestor-deaf-after-reconnect', 'fixed', '5555555', 'Requestor: after a successful reconnect every request times out because the reply-reader task still reads the old stream'),
 ('C13-exponential-wraps-to-zero', 'fixed', '6666666', 'exponential(2) with 66 attempts and a 4 s cap: attempt 65 sleeps 0 ms because 2^64 wraps to 0 (u64::pow), instead of saturating at the cap'),
 ('C07-try-from-slicing-panic', 'fixed', '7777777', 'TopicName::try_from (and every builder open()) panics on a string whose byte 1 is inside a multi-byte character (value[1..] slicing)'),
 ('C17-registration-under-global-lock', 'fixed', '8888888', 'with a stalled subscriber on topic A and more than 101 registrations queued on it, handle_stream parks in tx.send() while holding the global topic lock: no client can open a stream on any other topic'),
 ('C11-accepted-then-abandoned', 'fixed', '9999999', 'a registration in a role that does not match the topic\'s existing kind (e.g. RegisterReplier on a pub/sub topic) is answered Ok and then abandoned: the stream task panics in Socket::unwrap_pubsub/unwrap_reqrep'),
 ('C11-panic-in-selium-panic-server-src-topic-mod', 'fixed', '9999999', 'handle_stream panics (topic/mod.rs unwrap_pubsub / unwrap_reqrep) after having answered Ok to a registration of the other messaging pattern'),
 ('C03-batch-outgrows-frame-limit', 'fixed', 'aaaaaaa', 'batching: members that are individually fine but together exceed 1 MiB are all dropped when the batch frame is refused at a later poll_ready; send() had returned Ok for each of them'),
 ('C06-decoder-panic-decode-message-batch', 'fixed', '0000000', 'decode_message_batch panics on malformed input (short header: get_u64; oversize element: split_to; huge count: capacity overflow)'),
 ('C06-decoder-panic-subscriber-chain', 'fixed', '0000000', 'subscriber chain (decompress -> unbatch -> decode) panics inside decode_message_batch on malformed batch bodies'),
 ('C06-oversized-allocation-decode-message-batch', 'fixed', '0000000', 'decode_message_batch allocates count x 32 bytes for an attacker-chosen count (512 MiB for 8 input bytes)'),
 ('C06-oversized-allocation-subscriber-chain', 'fixed', '0000000', 'subscriber chain allocates hundreds of megabytes for a few hundred input bytes (batch count trusted)'),
 ('C06-process-abort-wire-hostile', 'fixed', '0000000', 'allocation of more than 3 GiB requested while decoding a small input (batch count / bincode length prefix trusted): process aborts'),
 ('C06-decoder-panic-bincodecodec', 'fixed', '1111111', 'BincodeCodec::decode panics with capacity overflow on an adversarial length prefix (deserialize_from without limit)'),
 ('C06-subscriber-recursion-stack-overflow', 'fixed', 'ccccccc', 'Subscriber::poll_next recurses once per batch frame: 40000 empty batch frames (680 kB) from a publisher overflow the 2 MiB stack of the task polling the subscriber and abort the process'),
 ('C06-brotli-large-window-allocation', 'fixed', 'bbbbbbb', 'BrotliDecomp::decompress requests a 1 GiB ring buffer for a 16-byte payload whose first byte announces the Large Window Brotli extension'),
 ('C04-request-never-returns', 'fixed', 'ddddddd', 'Requestor::request() never returns when the request cannot be written out: 4 clones of one requestor each send a 900 kB request with a 5 s timeout to a library replier; the calls queued behind the shared, flow-controlled stream neither get a reply nor the timeout error (the timeout only covered the wait for the reply, not the send)'),
 ('C11-topic-wedged-by-bulk-traffic', 'fixed', 'eeeeeee', 'request/reply topic wedged for good by well-formed traffic: 20 requests of 100 kB to a library replier that answers with 300 kB each; the router waits for the replier to read the next request without reading its replies, the replier (one request at a time) waits for its reply to be read before it reads on; nothing is answered and a fresh requestor gets no answer either'),
 ('C10-bound-traffic-stalled-by-rejected-replier', 'fixed', 'fffffff', 'a peer that registers as a second replier behind a 9-byte stream window and reads nothing freezes the topic: the router returns Pending until the refusal has been written and closed, the bound replier no longer receives requests, the requestor that was being served times out'),
 ('C10-topic-closed-to-newcomers-by-rejected-replier', 'fixed', 'fffffff', 'same stalled refusal: no further registration is taken, a fresh requestor on the topic is told Ok by the server and never served'),
 ('C12-panic-asked-again-after-unrecoverable-error', 'fixed', 'ggggggg', 'pub/sub KeepAlive: after an unrecoverable reconnect error (a refused re-registration) the next poll of the stream panics with `async fn` resumed after completion (keep_alive/pubsub.rs:60): status stays Disconnected with a completed attempt future'),
 ('C06-oversized-allocation-bincodecodec', 'fixed', '1111111', 'BincodeCodec::decode requests 2 GiB for 126 input bytes (length prefix trusted by deserialize_from)'),
]
def main():
    import subprocess
    log = subprocess.run(['git','-C','/repo','log','--format=%h %s'],capture_output=True,text=True).stdout.splitlines()
    def sha(prefix):
        for l in log:
            if l.split(' ',1)[1].startswith(prefix): return l.split()[0]
        return None
    subst = {'0000000': sha('fix: decode_message_batch'), '1111111': sha('fix: BincodeCodec::decode'), '2222222': sha('fix: Publisher::finish flushes'), '3333333': sha('fix: Subscriber yields the messages of a batch'), '4444444': sha('fix: a Replier gets a fresh retry budget'), '5555555': sha('fix: Requestor reads replies from the new stream'), '6666666': sha('fix: backoff delays saturate'), '7777777': sha('fix: TopicName::try_from no longer panics'), '8888888': sha('fix: a registration no longer holds the global topic lock'), '9999999': sha('fix: a registration whose role does not match'), 'aaaaaaa': sha('fix: a batch is framed before it can outgrow'), 'bbbbbbb': sha('fix: brotli decompression refuses large-window'), 'ccccccc': sha('fix: Subscriber::poll_next loops instead of recursing'), 'ddddddd': sha('fix: the request timeout covers writing the request'), 'eeeeeee': sha('fix: request/reply router keeps reading replies'), 'fffffff': sha('fix: a surplus replier that is slow to take its refusal'), 'ggggggg': sha('fix: a pub/sub stream that gave up on an unrecoverable error')}
    out = []
    for f in sorted(glob.glob(os.path.join(HERE,'findings','*.json'))):
        b = os.path.basename(f)[:-5]
        row = next((r for r in TABLE if b.startswith(r[0])), None)
        if row is None:
            print('no table row for', b); continue
        _, status, commit, what = row
        commit = subst.get(commit, commit)
        v = json.load(open(f))['violation']
        e = {'property': v['property'], 'status': status, 'tag': v['tag'], 'signature': v['signature'], 'what': what, 'replay': 'findings/'+os.path.basename(f)}
        if status == 'fixed':
            e['commit'] = commit
            e['fixed_line'] = f"fixed: property={v['property']} {commit} {what}"
        out.append(e)
    json.dump({'findings': out}, open(os.path.join(HERE,'known_findings.json'),'w'), indent=1)
    print(len(out), 'entries')
main()
