#!/bin/sh
# Runs every quick check under several VERIF_SEED values on the current tree (replays/evidence go
# to a scratch dir so the committed ones stay those of the default seed). Usage: seed_sweep.sh seed...
HERE="$(cd "$(dirname "$0")/.." && pwd)"
OUT="$HERE/dst/target/run/sweep-$$"; mkdir -p "$OUT"
FAIL=0
for S in "$@"; do
  for P in C01 C02 C03 C04 C05 C06 C07 C08 C09 C10 C11 C12 C13 C14 C15 C16 C17; do
    VERIF_SEED=$S VERIF_REPLAY_DIR="$OUT/replays-$S" VERIF_EVIDENCE_DIR="$OUT/evidence-$S" "$HERE/dst.sh" check $P --tier "${TIER:-quick}" > "$OUT/$P-$S.log" 2>&1
    rc=$?
    if [ $rc -ne 0 ]; then FAIL=1; echo "seed=$S $P exit=$rc: $(grep -m2 '^violation:' "$OUT/$P-$S.log" | cut -c1-300)"; fi
  done
  echo "seed $S done"
done
[ $FAIL -eq 0 ] && { echo "sweep clean"; rm -rf "$OUT"; } || echo "logs and replays in $OUT"
