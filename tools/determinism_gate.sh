#!/bin/sh
# Determinism gate: the same seeds executed in different processes, at different positions in a
# batch and with different process counts must give identical traces (N-engine: datagram-level
# hash; R/W: event-log hash). Usage: tools/determinism_gate.sh <property> <family> [count]
set -e
HERE="$(cd "$(dirname "$0")/.." && pwd)"
D="$HERE/dst/target/release/dst"
P="${1:-SMOKE}"; F="${2:-n-smoke}"; N="${3:-2000}"
T="$HERE/dst/target/run/gate-$$"; mkdir -p "$T"
for k in $(seq 0 15); do "$D" hashes "$P" "$F" "$k" $((N/16)) 16 > "$T/a$k" & done; wait
for k in $(seq 0 7); do "$D" hashes "$P" "$F" "$k" $((N/8)) 8 > "$T/b$k" & done; wait
cat "$T"/a* | sort -n > "$T/A"; cat "$T"/b* | sort -n > "$T/B"
if diff -q "$T/A" "$T/B" >/dev/null; then echo "determinism gate OK: $(wc -l < "$T/A") seeds, $(awk '{print $2}' "$T/A" | sort -u | wc -l) distinct traces"; rm -rf "$T"; exit 0
else echo "DIVERGENCE:"; diff "$T/A" "$T/B" | head; rm -rf "$T"; exit 1; fi
