#!/usr/bin/env python3
"""mech_report.py <all.tsv> <index.tsv> <mutant-dir> [retest.tsv] -> writes /verif/seeded/MECHANICAL.md

all.tsv: n, file, line, operator, verdict (from tools/mech_run.sh). retest.tsv: n <TAB> verdict for
survivors re-run after a check was strengthened. The triage of the remaining survivors is the table
TRIAGE below (kept here so that the report can be regenerated)."""
import sys, collections

TRIAGE = {
    # n: (class, reason)
    "001": ("no property", "registration channel capacity 100 -> 101: no listed property depends on the exact capacity"),
    "002": ("no property", "registration channel capacity 100 -> 50: as above (C17's over-full queue needs > capacity registrations either way)"),
    "004": ("no property", "pub/sub router hands an item to the fan-out without polling it for readiness first: the framed writers buffer without bound instead of exerting back-pressure; delivery, order and flushing are unchanged (a Sink-contract / memory matter, not one of C01-C17)"),
    "009": ("no property", "publisher streams are not told SHUTDOWN_IN_PROGRESS when the router stops: C16 speaks of finishing and flushing only"),
    "010": ("no property", "subscriber sinks are not reset with SHUTDOWN_IN_PROGRESS when the router stops: as 009"),
    "020": ("equivalent", "a sink that failed in start_send as the last entry is evicted by the next poll_ready / poll_flush instead (it keeps failing)"),
    "024": ("dead code", "FanoutMany::poll_close is never called by the pub/sub router"),
    "025": ("dead code", "FanoutMany::poll_close, as 024"),
    "026": ("dead code", "FromIterator for FanoutMany is not used"),
    "027": ("dead code", "Extend for FanoutMany is not used"),
    "028": ("no property", "request/reply registration channel capacity, as 001"),
    "029": ("no property", "as 002"),
    "038": ("no property", "request/reply router no longer flushes the requestor sinks when it is told to stop: C16's flush clause names messages taken from a publisher; for request/reply it demands termination only (DESIGN section 11 notes this)"),
    "039": ("no property", "requestor streams not told SHUTDOWN_IN_PROGRESS at router stop, as 009"),
    "040": ("no property", "requestor sinks not reset at router stop, as 010"),
    "042": ("no property", "the replier's stream not told SHUTDOWN_IN_PROGRESS at router stop, as 009"),
    "049": ("equivalent", "one of two flushes of the requestor sinks when the replier departs: the parking arm flushes them again before the router sleeps"),
    "054": ("no property", "reply handed to the requestor router without polling it for readiness: back-pressure only, as 004"),
    "056": ("equivalent", "flush when the last requestor stream ends: the parking arm flushes before the router sleeps"),
    "065": ("no property", "Router::poll_ready reports ready without asking any sink: back-pressure only, as 004"),
    "070": ("equivalent", "a requestor sink that failed in start_send stays in the map until its next flush fails, which evicts it"),
    "073": ("dead code", "Router::poll_close is never called by the request/reply router"),
    "074": ("dead code", "as 073"),
    "075": ("dead code", "FromIterator for Router is not used"),
    "076": ("dead code", "Extend for Router is not used"),
    "078": ("out of reach", "the Ctrl-C arm of Server::listen no longer calls shutdown(): the simulation calls shutdown() through the hook, it cannot deliver a signal (stated limit)"),
    "079": ("no property", "shutdown no longer refuses new connections first"),
    "081": ("no property", "shutdown closes the endpoint without waiting for the routers: end to end nothing observable changes, because endpoint.close() right after the join discards whatever the routers flushed into quinn anyway; C16 is a router-level statement and is decided in R"),
    "082": ("no property", "shutdown does not wait for the endpoint to go idle"),
    "084": ("not compiled", "inside #[cfg(feature = \"__cloud\")]"),
    "088": ("no property", "pub/sub topic handle not recorded for shutdown's join: as 081"),
    "090": ("no property", "request/reply topic handle not recorded: as 081"),
    "098": ("equivalent", "reserve() before encoding: capacity hint only"),
    "108": ("equivalent", "reserve() for the rest of a partial frame: capacity hint only"),
    "124": ("no property", "default number of reconnect attempts 5 -> 6: the checks configure the budget explicitly; no property fixes the default"),
    "125": ("no property", "default attempts 5 -> 2, as 124"),
    "140": ("no property", "KeepAlive::poll_close (SinkExt::close on a publisher): not part of any listed property; finish() is what C03 speaks about"),
    "141": ("no property", "as 140"),
    "144": ("no property", "a subscriber whose stream ends cleanly (None) no longer re-registers: C12 is about a dropped connection, which surfaces as an error, never as a clean end"),
    "156": ("equivalent", "the batch timer is not re-armed after a send: more, smaller batches; delivery and order unchanged"),
    "160": ("no property", "poll_ready sends the batch when it is *not* due: batch boundaries move, delivery and order unchanged (C03 promises delivery by finish(), not timeliness)"),
    "161": ("no property", "poll_ready never sends a due batch: items travel at flush()/finish(), as 160"),
    "163": ("equivalent", "batch is sent before every push: batches of one"),
    "164": ("equivalent", "as 163"),
    "192": ("no property", "a batch is due only when both the interval and the size are exceeded: as 161"),
    "197": ("no property", "zstd `highest()` level 9 -> 10: another valid level, the round trip is unchanged"),
    "198": ("no property", "zstd `highest()` level 9 -> 4: as 197"),
    "199": ("no property", "zstd `fastest()` level 1 -> 2: as 197"),
    "200": ("equivalent", "brotli output buffer size constant"),
    "201": ("equivalent", "as 200"),
    # ---- second batch (numbered from 301) ----
    "301": ("no property", "TLS key log enabled when it was not asked for"),
    "302": ("no property", "unidirectional streams no longer forbidden (nothing opens one)"),
    "303": ("no property", "the configured idle timeout is not passed on: quinn's default applies; no property fixes its value"),
    "304": ("no property", "stateless retry switched on although not asked for: one more round trip in the handshake"),
    "305": ("no property", "stateless retry never switched on"),
    "312": ("dead code", "BiStream::finish is not used by the streams (they finish their halves themselves)"),
    "313": ("no property", "brotli encoder parameter constant (quality / window / block size): another valid setting, the round trip is unchanged"),
    "314": ("no property", "as 313"), "315": ("no property", "as 313"), "316": ("no property", "as 313"),
    "317": ("no property", "as 313"), "318": ("no property", "as 313"), "319": ("no property", "as 313"),
    "321": ("equivalent", "explicit flush before into_inner(), which finishes the stream anyway"),
    "323": ("out of reach", "CA validity period: certificate expiry is not exercised (the wall clock is frozen inside the simulation, stated limit)"),
    "329": ("no property", "CA key usage DigitalSignature dropped: the rustls/webpki verifiers do not check keyUsage"),
    "330": ("no property", "CA key usage KeyCertSign dropped: as 329"),
    "331": ("no property", "CA key usage CrlSign dropped: as 329"),
    "332": ("no property", "leaf key usage DigitalSignature dropped: as 329"),
    "333": ("no property", "leaf extendedKeyUsage dropped: a certificate without EKU is accepted for any purpose; trusted peers still accepted, untrusted still refused"),
    "334": ("out of reach", "leaf validity period, as 323"),
    "335": ("out of reach", "seconds per day 86400 -> 86401: validity dates, as 323"),
    "336": ("out of reach", "as 335"),
    "340": ("equivalent", "the last sink gets a clone of the item like the others instead of the item itself"),
    "344": ("dead code", "FanoutMany::poll_close"),
    "357": ("equivalent", "Router::poll_flush reports Ready although one requestor sink is Pending: that sink has stored the waker, the router comes back and flushes again (the request/reply shutdown path does not promise a flush, see DESIGN section 11)"),
    "359": ("dead code", "Router::poll_close"), "360": ("dead code", "Router::poll_close"),
    "361": ("dead code", "Router::poll_close"), "362": ("dead code", "Router::poll_close"),
    "363": ("out of reach", "Ctrl-C arm of Server::listen, as 078"),
    "364": ("equivalent", "a string whose byte 1 is not a character boundary is reported as reserved instead of malformed: refused either way"),
    "370": ("no property", "as 305"),
    "371": ("no property", "a key path without extension is read as DER: the generator and the checks use .der / .pem names"),
    "372": ("no property", "as 371, certificate chain"),
    "373": ("no property", "authority key identifier extension not emitted: not needed for chain building here"),
}

def main():
    allp, idxp, mdir = sys.argv[1:4]
    retest = {}
    if len(sys.argv) > 4:
        for l in open(sys.argv[4]):
            if l.strip():
                n, v = l.rstrip("\n").split("\t", 1)
                retest[n] = v
    rows = [l.rstrip("\n").split("\t") for l in open(allp) if l.strip()]
    verdicts = collections.Counter()
    out = []
    out.append("# Mechanical mutants against the quick checks\n")
    out.append("Two batches: 1-203 (`gen`: 24 files) and 301-373 (`gen2`: the same operators on 17 more files, plus")
    out.append("literal flips, break/continue, min/max, +-1, saturating/wrapping, counters not incremented on all 41).")
    out.append("Generated by `tools/mech_mutants.py` (every instance of a few single-token operators in the files the")
    out.append("properties are anchored in: negated `if`, `&&`/`||` swapped, relational operators moved to their")
    out.append("boundary neighbour, statements and bare calls deleted, `*_pending = true` flipped, constants +1 and")
    out.append("halved) and run by `tools/mech_run.sh` in relocated copies of /verif against clones of /repo: apply, run")
    out.append("the quick checks of the properties mapped to that file until one reports a violation, revert.")
    out.append("Nobody chose these mutants, so unlike the hand-written ones of this directory most survivors are")
    out.append("expected to be equivalent or outside every listed property; each survivor was read and is classified")
    out.append("below. Survivors that exposed a gap were used to strengthen a check and re-run.\n")
    surv = []
    caught_by = collections.Counter()
    for n, f, line, op, v in rows:
        k = v.split(" ")[0]
        if k.startswith("BROKEN"):
            k = "SURVIVED"
        if k == "SURVIVED" and n in retest:
            k = "CAUGHT-AFTER"
        verdicts[k] += 1
        if k == "CAUGHT":
            caught_by[v.split(" ")[1]] += 1
        if k in ("SURVIVED", "CAUGHT-AFTER"):
            surv.append((n, f, line, op, k))
    total = len(rows)
    nc = verdicts["NOCOMPILE"]
    out.append(f"| mutants | do not compile | caught at once | caught after strengthening | survive |")
    out.append(f"|---|---|---|---|---|")
    out.append(f"| {total} | {nc} | {verdicts['CAUGHT']} | {verdicts['CAUGHT-AFTER']} | {verdicts['SURVIVED']} |\n")
    out.append("First catching check (the checks of a file run in a fixed order, so this is not a ranking): " + ", ".join(f"{p} {c}" for p, c in sorted(caught_by.items())) + ".\n")
    out.append("## Survivors that exposed a gap (now caught)\n")
    out.append("| n | file:line | operator | now caught by |")
    out.append("|---|---|---|---|")
    for n, f, line, op, k in surv:
        if k == "CAUGHT-AFTER":
            out.append(f"| {n} | {f}:{line} | {op} | {retest[n]} |")
    out.append("\n## Remaining survivors, classified\n")
    cls = collections.Counter()
    out.append("| n | file:line | operator | class | why it survives |")
    out.append("|---|---|---|---|---|")
    for n, f, line, op, k in surv:
        if k == "SURVIVED":
            c, r = TRIAGE.get(n, ("UNCLASSIFIED", ""))
            cls[c] += 1
            out.append(f"| {n} | {f}:{line} | {op} | {c} | {r} |")
    out.append("\nClasses: " + ", ".join(f"{c} {k}" for c, k in sorted(cls.items())) + ".")
    out.append("\nThe mutants themselves are not kept (they are regenerated by `tools/mech_mutants.py gen <clone> <dir>`; numbering is stable for a given tree).")
    open("/verif/seeded/MECHANICAL.md", "w").write("\n".join(out) + "\n")
    print(verdicts, cls)

if __name__ == "__main__":
    main()
