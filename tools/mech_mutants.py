#!/usr/bin/env python3
"""Mechanical mutants: single-token changes to the files the properties are anchored in.

Complements the 204 hand-written seeded changes of /verif/seeded: those are realistic slips chosen by
people who read a property; these are every instance of a few small operators, chosen by nobody.

  mech_mutants.py gen <repo> <out-dir>     writes <out-dir>/<n>.diff and <out-dir>/index.tsv
                                           (n, file, line, operator, properties to run)
  mech_mutants.py gen2 <repo> <out-dir>    second batch (numbered from 301): the same operators on
                                           17 more files, plus literal flips, break/continue,
                                           min/max, +-1, saturating->wrapping, counters not
                                           incremented, on all 41 files

Operators (one per mutant, applied to non-test, non-comment code only):
  neg-if     `if COND {`            -> `if !(COND) {`
  and-or     first `&&` on a line   -> `||`      (and the reverse)
  rel        `<`/`<=`/`>`/`>=`/`==`/`!=` swapped with its boundary neighbour or its opposite
  del-stmt   a statement line that is a `ready!(..)`, an assignment `*x = ..;`, a `continue;`,
             a `.take()`/`.insert(..)`/`.remove(..)`/`.clear()`/`.shutdown_*()` call -> removed
  pend-ready `Poll::Pending =>` arms are left alone; `return Poll::Pending;` -> `continue;` is too
             blunt; instead `x_pending = true;` -> `x_pending = false;`
  const      integer literals in `const NAME: .. = N;` -> N+1 and N/2
"""
import os, re, subprocess, sys

FILES = {
    "server/src/topic/pubsub.rs": "C01 C08 C09 C16",
    "server/src/sink/fanout_many.rs": "C01 C08 C09 C16",
    "server/src/topic/reqrep.rs": "C02 C08 C09 C10 C11 C16",
    "server/src/sink/router.rs": "C02 C08 C09 C11",
    "server/src/server.rs": "C07 C11 C17 C10 C16",
    "protocol/src/codec.rs": "C05 C06",
    "protocol/src/utils.rs": "C05 C06 C03",
    "protocol/src/topic_name.rs": "C07",
    "client/src/keep_alive/backoff_strategy.rs": "C13 C12",
    "client/src/keep_alive/pubsub.rs": "C12 C03",
    "client/src/keep_alive/reqrep.rs": "C12 C04 C10",
    "client/src/keep_alive/helpers.rs": "C12",
    "client/src/streams/pubsub/publisher.rs": "C03 C12",
    "client/src/streams/pubsub/subscriber.rs": "C03 C06 C12",
    "client/src/streams/request_reply/requestor.rs": "C04 C12",
    "client/src/streams/request_reply/replier.rs": "C04 C12 C06",
    "client/src/batching/message_batch.rs": "C03",
    "client/src/batching/batch_config.rs": "C03",
    "standard/src/compression/deflate/comp.rs": "C14",
    "standard/src/compression/deflate/decomp.rs": "C14 C06",
    "standard/src/compression/zstd/comp.rs": "C14",
    "standard/src/compression/zstd/decomp.rs": "C14 C06",
    "standard/src/compression/brotli/decomp.rs": "C14 C06",
    "standard/src/compression/lz4/decomp.rs": "C14 C06",
}

FILES2 = {
    "server/src/quic.rs": "C15 C17",
    "client/src/connection.rs": "C15 C12 C03",
    "protocol/src/frame.rs": "C05 C06 C11",
    "protocol/src/bistream.rs": "C05 C03 C16",
    "standard/src/codecs/bincode_codec.rs": "C14 C06",
    "standard/src/codecs/bytes_codec.rs": "C14 C06",
    "standard/src/codecs/string_codec.rs": "C14 C06",
    "standard/src/compression/brotli/comp.rs": "C14",
    "standard/src/compression/lz4/comp.rs": "C14",
    "tools/src/commands/gen_certs/cert_gen.rs": "C15",
    "tools/src/commands/gen_certs/certificate_builder.rs": "C15",
    "tools/src/commands/gen_certs/key_pair.rs": "C15",
    "tools/src/commands/gen_certs/validity_range.rs": "C15",
    "client/src/traits/try_into_u64.rs": "C04 C12",
    "client/src/streams/request_reply/states.rs": "C04",
    "client/src/streams/builder.rs": "C12",
    "client/src/keep_alive/connection_status.rs": "C12",
}


def mutants2_for(text):
    """second batch of operators, applied to every file"""
    out = []
    for i, l in code_lines(text):
        bare = strip_strings(l).split("//")[0]
        if "//" in l:
            continue
        for a, b in (("true", "false"), ("false", "true")):
            if re.search(r"\b%s\b" % a, bare) and "=>" not in bare and "assert" not in bare:
                out.append((i, f"lit:{a}", re.sub(r"\b%s\b" % a, b, l, count=1)))
                break
        s = l.strip()
        if s == "break;":
            out.append((i, "break->continue", l.replace("break;", "continue;")))
        if ".min(" in bare:
            out.append((i, "min->max", l.replace(".min(", ".max(", 1)))
        elif ".max(" in bare:
            out.append((i, "max->min", l.replace(".max(", ".min(", 1)))
        m = re.search(r"([A-Za-z_\)\]]) ([+-]) 1\b", bare)
        if m and "=>" not in bare:
            out.append((i, "pm1", l.replace(f"{m.group(1)} {m.group(2)} 1", f"{m.group(1)} {'-' if m.group(2) == '+' else '+'} 1", 1)))
        if "saturating_" in bare:
            out.append((i, "saturating->wrapping", l.replace("saturating_", "wrapping_", 1)))
        m = re.match(r"^(\s*)(if let .* = .* \{)\s*$", l)
        if re.match(r"^\s*return (Err|Ok|Poll::Ready|Poll::Pending).*;$", l) and not re.search(r"return Poll::Pending;", l):
            pass
        if re.match(r"^\s*Poll::Pending => return Poll::Pending,$", l):
            out.append((i, "pending-arm", l.replace("return Poll::Pending", "()")))
        if re.match(r"^\s*[a-z_]+ \+= 1;$", l):
            out.append((i, "del-incr", None))
    return out


REL = [("<=", "<"), (">=", ">"), (" < ", " <= "), (" > ", " >= "), ("==", "!="), ("!=", "==")]


def code_lines(text):
    """yield (index, line) for lines outside #[cfg(test)] modules, comments and attributes"""
    lines = text.split("\n")
    in_test = False
    for i, l in enumerate(lines):
        s = l.strip()
        if s.startswith("#[cfg(test)]"):
            in_test = True
        if in_test:
            continue
        if not s or s.startswith("//") or s.startswith("#[") or s.startswith("///") or s.startswith("use ") or s.startswith("*") or s.startswith("/*"):
            continue
        yield i, l


def strip_strings(l):
    return re.sub(r'"(\\.|[^"\\])*"', '""', l)


def mutants_for(text):
    out = []  # (line_index, operator, new_line or None for deletion)
    for i, l in code_lines(text):
        bare = strip_strings(l).split("//")[0]
        m = re.match(r"^(\s*)(\}? ?else )?if (?!let )(.+) \{\s*$", l)
        if m and "//" not in l:
            out.append((i, "neg-if", f"{m.group(1)}{m.group(2) or ''}if !({m.group(3)}) {{"))
        if "&&" in bare and "//" not in l:
            out.append((i, "and-or", l.replace("&&", "||", 1)))
        if "||" in bare and "//" not in l and "|| " in bare and not re.search(r"\|\|\s*(\{|[a-z_]+\s*\|)", bare) and not re.search(r"\(\|\|", bare):
            out.append((i, "or-and", l.replace("||", "&&", 1)))
        if "//" not in l and "=>" not in bare and "->" not in bare and "<" + "" in bare:
            for a, b in REL:
                if a in bare and not re.search(r"<[A-Za-z_(&'\[]", bare.replace(" < ", " ").replace(" <= ", " ")) and "Vec<" not in bare and "::<" not in bare:
                    out.append((i, f"rel:{a.strip()}->{b.strip()}", l.replace(a, b, 1)))
                    break
        s = l.strip()
        if re.match(r"^ready!\(.*\)(\.unwrap\(\))?;$", s) or re.match(r"^\*[a-z_]+ = .*;$", s) or s == "continue;" or re.match(r"^[a-z_\.]+(\.as_mut\(\))*\.(take|clear|shutdown_stream|shutdown_sink)\(\);$", s) or re.match(r"^[a-z_\.]+\.(insert|remove|swap_remove)\(.*\);$", s):
            out.append((i, "del-stmt", None))
        elif re.match(r"^(self\.)?[a-z_][a-z_0-9\.]*(\(\))?(\.[a-z_]+)*\(.*\)(\.await)?\??;$", s) and not re.match(r"^(logging::|trace!|debug!|info!|warn!|error!|println!|assert|drop\()", s) and "logging::" not in s:
            out.append((i, "del-call", None))
        m = re.match(r"^(\s*)([a-z_]+_pending) = true;$", l)
        if m:
            out.append((i, "flag", f"{m.group(1)}{m.group(2)} = false;"))
        m = re.match(r"^(\s*(?:pub )?const [A-Z_]+: [a-z0-9]+ = )([0-9_]+)( \* [0-9_ \*]+)?;$", l)
        if m:
            n = int(m.group(2).replace("_", ""))
            out.append((i, "const+1", f"{m.group(1)}{n + 1}{m.group(3) or ''};"))
            if n > 1:
                out.append((i, "const/2", f"{m.group(1)}{n // 2}{m.group(3) or ''};"))
    return out


def main():
    if len(sys.argv) != 4 or sys.argv[1] not in ("gen", "gen2"):
        print(__doc__)
        sys.exit(2)
    repo, outdir = sys.argv[2], sys.argv[3]
    os.makedirs(outdir, exist_ok=True)
    second = sys.argv[1] == "gen2"
    n = 300 if second else 0
    index = []
    work = []
    if second:
        # the first batch's operators on the additional files, the additional operators everywhere
        for f, props in FILES2.items():
            work.append((f, props, mutants_for))
        for f, props in list(FILES.items()) + list(FILES2.items()):
            work.append((f, props, mutants2_for))
    else:
        for f, props in FILES.items():
            work.append((f, props, mutants_for))
    for f, props, gen in work:
        path = os.path.join(repo, f)
        text = open(path).read()
        for (i, op, new) in gen(text):
            lines = text.split("\n")
            if new is None:
                del lines[i]
            else:
                if lines[i] == new:
                    continue
                lines[i] = new
            open(path, "w").write("\n".join(lines))
            d = subprocess.run(["git", "-C", repo, "diff", "--", f], capture_output=True, text=True).stdout
            open(path, "w").write(text)
            if not d.strip():
                continue
            n += 1
            open(os.path.join(outdir, f"{n:03d}.diff"), "w").write(d)
            index.append(f"{n:03d}\t{f}\t{i + 1}\t{op}\t{props}")
    open(os.path.join(outdir, "index.tsv"), "w").write("\n".join(index) + "\n")
    print(n, "mutants")


if __name__ == "__main__":
    main()
