#!/bin/sh
# Confirms a seeded change in its scratch worktree: the demonstration passes at HEAD, fails with the
# change, and the pinned suite still gives the baseline results with the change.
# Usage: confirm_mutant.sh <worktree> <patch.diff> <demo-file> <dest-dir-relative> <package> <test-name> [certs]
WT="$1"; PATCH="$2"; DEMO="$3"; DEST="$4"; PKG="$5"; TEST="$6"; CERTS="$7"
export CARGO_NET_OFFLINE=true RUST_BACKTRACE=0
cd "$WT" || exit 2
[ -z "$(git status --porcelain)" ] || { echo "worktree dirty"; exit 2; }
CREATED=""
[ -d "$DEST" ] || CREATED=1
mkdir -p "$DEST"; cp "$DEMO" "$DEST/" || exit 2
# optional extra setup inside the worktree (e.g. a dev-dependency the demonstration needs)
if [ -n "$PRECMD" ]; then sh -c "$PRECMD" || { echo "PRECMD failed"; exit 2; }; fi
if [ "$CERTS" = "default" ]; then cargo run --offline -q -p selium-tools -- gen-certs >/dev/null 2>&1;
elif [ -n "$CERTS" ]; then cargo run --offline -q -p selium-tools -- gen-certs -s target/seed-certs/server/ -c target/seed-certs/client/ --no-expiry >/dev/null 2>&1; fi
RUSTFLAGS="$DEMO_RUSTFLAGS" cargo test -p "$PKG" --offline $EXTRA --test "$TEST" > /tmp/confirm.$$.head 2>&1; H=$?
git apply "$PATCH" || { echo "patch does not apply"; exit 2; }
RUSTFLAGS="$DEMO_RUSTFLAGS" cargo test -p "$PKG" --offline $EXTRA --test "$TEST" > /tmp/confirm.$$.mut 2>&1; M=$?
rm -f "$DEST/$(basename "$DEMO")"; [ -n "$CREATED" ] && rmdir "$DEST" 2>/dev/null
git checkout -q -- Cargo.lock '*/Cargo.toml' 2>/dev/null
cargo test --workspace --offline --no-fail-fast > /tmp/confirm.$$.suite 2>&1
PASSED=$(grep -E '^test .* \.\.\. ok$' /tmp/confirm.$$.suite | wc -l)
FAILED=$(grep -E '^test .* \.\.\. FAILED$' /tmp/confirm.$$.suite | grep -v -E 'pub_sub::test_pub_sub|request_reply::' | wc -l)
git checkout -q -- . ; git clean -fdq -- client server protocol standard tools tests 2>/dev/null
rm -rf target/seed-certs certs
echo "demo@HEAD exit=$H ($(grep -E '^test result' /tmp/confirm.$$.head | tail -1 | cut -c1-60)) | demo@mutant exit=$M ($(grep -E '^test result' /tmp/confirm.$$.mut | tail -1 | cut -c1-60)) | suite with mutant: $PASSED tests ok, $FAILED unexpected failures"
rm -f /tmp/confirm.$$.*
[ $H -eq 0 ] && [ $M -ne 0 ] && [ "$FAILED" -eq 0 ] && echo CONFIRMED || echo NOT-CONFIRMED
