#!/bin/sh
# Applies a seeded change to /repo, runs the quick checks of the given properties against it,
# reverts the change. Usage: tools/try_mutant.sh <patch.diff> <out-dir> <property>...
# Prints one line per property: CAUGHT / MISSED / BROKEN(exit code), keeps replays in <out-dir>.
HERE="$(cd "$(dirname "$0")/.." && pwd)"
PATCH="$1"; OUT="$2"; shift 2
REPO="${REPO:-/repo}"
mkdir -p "$OUT"
if ! git -C "$REPO" apply --check "$PATCH" 2>/dev/null; then echo "PATCH-DOES-NOT-APPLY $PATCH"; exit 3; fi
if [ -n "$(git -C "$REPO" status --porcelain)" ]; then echo "$REPO is dirty; refusing"; exit 3; fi
git -C "$REPO" apply "$PATCH"
trap 'git -C "$REPO" checkout -- . ; git -C "$REPO" clean -fdq -- client server protocol standard tools 2>/dev/null' EXIT INT TERM
for P in "$@"; do
  VERIF_REPLAY_DIR="$OUT/replays" VERIF_EVIDENCE_DIR="$OUT/evidence" "$HERE/dst.sh" check "$P" --tier "${TIER:-quick}" > "$OUT/$P.log" 2>&1
  rc=$?
  if [ $rc -eq 1 ]; then echo "CAUGHT $P: $(grep -m1 '^violation:' "$OUT/$P.log" | cut -c1-220)";
  elif [ $rc -eq 0 ]; then echo "MISSED $P: $(grep '^summary' "$OUT/$P.log" | cut -c1-160)";
  else echo "BROKEN($rc) $P: $(tail -2 "$OUT/$P.log" | tr '\n' ' ' | cut -c1-200)"; fi
done
