#!/bin/sh
# Runs mechanical mutants (tools/mech_mutants.py) through the quick checks, in a relocated copy of
# /verif built against a clone of /repo (never /repo itself).
# Usage: REPO=<clone> mech_run.sh <mutant-dir> <results-file> <first> <last>
HERE="$(cd "$(dirname "$0")/.." && pwd)"
[ -n "$REPO" ] && [ "$REPO" != "/repo" ] || { echo "set REPO to a clone of /repo"; exit 2; }
DIR="$1"; RES="$2"; A="$3"; B="$4"
OUT="$HERE/dst/target/run/mech-$$"; mkdir -p "$OUT"
while IFS="$(printf '\t')" read -r N F L OP PROPS; do
  [ "$N" -ge "$A" ] 2>/dev/null && [ "$N" -le "$B" ] || continue
  if [ -n "$(git -C "$REPO" status --porcelain)" ]; then git -C "$REPO" checkout -- .; fi
  git -C "$REPO" apply "$DIR/$N.diff" || { echo "$N	$F	$L	$OP	NOAPPLY" >> "$RES"; continue; }
  VERDICT=SURVIVED
  for P in $PROPS; do
    VERIF_REPLAY_DIR="$OUT/replays" VERIF_EVIDENCE_DIR="$OUT/evidence" "$HERE/dst.sh" check "$P" --tier quick > "$OUT/log" 2>&1
    rc=$?
    if [ $rc -eq 1 ]; then VERDICT="CAUGHT $P $(grep -m1 '^violation:' "$OUT/log" | sed 's/^violation: //' | cut -c1-90)"; break;
    elif [ $rc -ne 0 ]; then
      if grep -q "error\[E\|error: could not compile\|^error" "$OUT/log"; then VERDICT="NOCOMPILE"; else VERDICT="BROKEN($rc) $P $(tail -1 "$OUT/log" | cut -c1-80)"; fi
      break; fi
  done
  git -C "$REPO" checkout -- .
  rm -rf "$OUT/replays" "$OUT/evidence"
  echo "$N	$F	$L	$OP	$VERDICT" >> "$RES"
done < "$DIR/index.tsv"
rm -rf "$OUT"
echo DONE >> "$RES"
